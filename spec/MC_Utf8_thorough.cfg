SPECIFICATION Spec
CONSTANTS
  Bytes <- MC_Bytes
  MaxLen = 4
  MaxChunk = 3
  DoExport = TRUE
INVARIANTS CarryOk Streaming Final ExportDone
VIEW View
CHECK_DEADLOCK FALSE
