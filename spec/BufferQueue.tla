---------------------------- MODULE BufferQueue ----------------------------
(***************************************************************************)
(* markup5ever::util::buffer_queue::BufferQueue.                           *)
(*                                                                         *)
(* L0 (reference): the queue *means* the concatenation of its buffers;     *)
(* every operation is defined on that flat string (plus, for               *)
(* pop_except_from, the position of the first buffer join, which the       *)
(* property statement itself mentions).                                    *)
(*                                                                         *)
(* L1 (implementation-shaped): `eat` as the code does it -- a byte-level   *)
(* scan with the two indices buffers_exhausted / consumed_from_last,       *)
(* followed by a separate commit phase -- and pop_except_from through      *)
(* nonmember_prefix_len on UTF-8 bytes.                                    *)
(***************************************************************************)
EXTENDS Chars, FiniteSets

\* A queue is a sequence of buffers; a buffer is a sequence of code points.
NoEmptyBuffer(q) == \A i \in DOMAIN q : q[i] # <<>>
Flat(q) == Flatten(q)

NoneR == [k |-> "none", c |-> 0, s |-> <<>>, b |-> FALSE]
CharR(c) == [k |-> "char", c |-> c, s |-> <<>>, b |-> FALSE]
StrR(s) == [k |-> "str", c |-> 0, s |-> s, b |-> FALSE]
BoolR(b) == [k |-> "bool", c |-> 0, s |-> <<>>, b |-> b]

\* Result of an operation: [r |-> result record, q |-> queue afterwards]
Res(r, q) == [r |-> r, q |-> q]

\* remove the first n characters of the concatenation, keeping the
\* remaining buffer structure and dropping buffers that become empty
RECURSIVE DropChars(_, _)
DropChars(q, n) ==
    IF n = 0 \/ q = <<>> THEN q
    ELSE IF Len(Head(q)) <= n THEN DropChars(Tail(q), n - Len(Head(q)))
    ELSE <<Drop(Head(q), n)>> \o Tail(q)

-----------------------------------------------------------------------------
(* L0 *)

L0PushBack(q, s) == Res(NoneR, IF s = <<>> THEN q ELSE Append(q, s))
L0PushFront(q, s) == Res(NoneR, IF s = <<>> THEN q ELSE <<s>> \o q)

L0Peek(q) == IF Flat(q) = <<>> THEN Res(NoneR, q) ELSE Res(CharR(Head(Flat(q))), q)
L0Next(q) == IF Flat(q) = <<>> THEN Res(NoneR, q) ELSE Res(CharR(Head(Flat(q))), DropChars(q, 1))

\* set: a set of code points below 64
L0PopExcept(q, set) ==
    IF Flat(q) = <<>> THEN Res(NoneR, q)
    ELSE LET c == Head(Flat(q)) IN
         IF c \in set THEN Res(CharR(c), DropChars(q, 1))
         ELSE \* maximal non-empty run of non-members that does not cross a buffer join
              LET n == PrefixWhileNotIn(Head(q), set, 1) IN
              Res(StrR(Take(Head(q), n)), DropChars(q, n))

EqCI(a, b) == Lower(a) = Lower(b)
EqFn(ci, a, b) == IF ci THEN EqCI(a, b) ELSE a = b

\* prefix comparison on the concatenation; pat non-empty.
\* "mismatch" = some position i <= min(|flat|,|pat|) differs.
L0Eat(q, pat, ci) ==
    LET f == Flat(q)
        m == MinN(Len(f), Len(pat))
        mism == \E i \in 1..m : ~EqFn(ci, f[i], pat[i])
        \* the implementation reports a mismatch only if it is met before the data runs out
    IN  IF f = <<>> THEN Res(NoneR, q)
        ELSE IF mism THEN Res(BoolR(FALSE), q)
        ELSE IF Len(f) < Len(pat) THEN Res(NoneR, q)
        ELSE Res(BoolR(TRUE), DropChars(q, Len(pat)))

-----------------------------------------------------------------------------
(* L1: byte-level algorithms as in the code *)

BytesOf(q) == [i \in DOMAIN q |-> Utf8EncSeq(q[i])]

\* SmallCharSet::nonmember_prefix_len over bytes: members are bytes < 64 in the set
RECURSIVE NonmemberPrefixLen(_, _, _)
NonmemberPrefixLen(bytes, set, i) ==
    IF i > Len(bytes) THEN i - 1
    ELSE IF bytes[i] >= 64 \/ bytes[i] \notin set THEN NonmemberPrefixLen(bytes, set, i + 1)
    ELSE i - 1

\* number of characters whose encoding occupies the first nb bytes of s (nb on a boundary)
RECURSIVE CharsInBytes(_, _)
CharsInBytes(s, nb) == IF nb <= 0 \/ s = <<>> THEN 0 ELSE 1 + CharsInBytes(Tail(s), nb - Utf8Len(Head(s)))

L1PopExcept(q, set) ==
    IF q = <<>> THEN Res(NoneR, q)
    ELSE LET buf == Head(q)
             n == NonmemberPrefixLen(Utf8EncSeq(buf), set, 1) IN
         IF n > 0 THEN
             LET k == CharsInBytes(buf, n)
                 rest == Drop(buf, k) IN
             Res(StrR(Take(buf, k)), IF rest = <<>> THEN Tail(q) ELSE <<rest>> \o Tail(q))
         ELSE LET rest == Tail(buf) IN
             Res(CharR(Head(buf)), IF rest = <<>> THEN Tail(q) ELSE <<rest>> \o Tail(q))

\* The scan loop of eat(): state (j = index into pattern bytes, be = buffers_exhausted,
\* cl = consumed_from_last).  Returns <<"none"|"false"|"true", be, cl>>.
RECURSIVE EatScan(_, _, _, _, _, _)
EatScan(bq, pb, ci, j, be, cl) ==
    IF j > Len(pb) THEN <<"true", be, cl>>
    ELSE IF be >= Len(bq) THEN <<"none", be, cl>>
    ELSE LET buf == bq[be + 1] IN
         IF ~EqFn(ci, buf[cl + 1], pb[j]) THEN <<"false", be, cl>>
         ELSE IF cl + 1 >= Len(buf) THEN EatScan(bq, pb, ci, j + 1, be + 1, 0)
         ELSE EatScan(bq, pb, ci, j + 1, be, cl + 1)

L1Eat(q, pat, ci) ==
    IF q = <<>> THEN Res(NoneR, q)
    ELSE LET bq == BytesOf(q)
             sc == EatScan(bq, Utf8EncSeq(pat), ci, 1, 0, 0) IN
         IF sc[1] = "none" THEN Res(NoneR, q)
         ELSE IF sc[1] = "false" THEN Res(BoolR(FALSE), q)
         ELSE \* commit: pop `be` buffers, then pop `cl` bytes from the new front
              LET q1 == Drop(q, sc[2]) IN
              IF q1 = <<>> THEN Res(BoolR(TRUE), q1)   \* code asserts cl = 0 here
              ELSE LET k == CharsInBytes(Head(q1), sc[3]) IN
                   \* NOTE: the code does buf.pop_front(cl) and leaves an empty front
                   \* buffer impossible because cl < len(buf) by construction.
                   Res(BoolR(TRUE), <<Drop(Head(q1), k)>> \o Tail(q1))
=============================================================================
