--------------------------- MODULE MC_BufferQueue ---------------------------
(***************************************************************************)
(* Bounded instance: the complete state graph of the queue under its six   *)
(* operations.  The state is the queue; each action applies the L1         *)
(* (code-shaped) algorithm, and the invariants require it to agree with L0 *)
(* on result and remaining content and to conserve the flat stream.        *)
(* `last` (the operation that led here) is hidden by VIEW; ExportT prints  *)
(* one replay case per *transition* (pre-state, operation) for the         *)
(* spec -> implementation direction.                                       *)
(***************************************************************************)
EXTENDS BufferQueue, TLC, Json, SequencesExt

CONSTANTS Alphabet,     \* code points used in buffers
          MaxBufLen,    \* max length of a pushed buffer
          MaxQueueChars,\* max characters held
          Sets,         \* small-char sets (sets of code points < 64)
          Pats,         \* patterns for eat
          DoExport

VARIABLES q, flat, last, ok

vars == <<q, flat, last, ok>>

Strs == UNION {[1..n -> Alphabet] : n \in 0..MaxBufLen}

NoOp == [op |-> "init", s |-> <<>>, set |-> <<>>, ci |-> FALSE]
Init == q = <<>> /\ flat = <<>> /\ last = NoOp /\ ok = TRUE

PushBack == \E s \in Strs :
    /\ Len(flat) + Len(s) <= MaxQueueChars
    /\ LET r == L0PushBack(q, s) IN
       /\ q' = r.q /\ flat' = flat \o s /\ ok' = TRUE
       /\ last' = [op |-> "push_back", s |-> s, set |-> <<>>, ci |-> FALSE]

PushFront == \E s \in Strs :
    /\ Len(flat) + Len(s) <= MaxQueueChars
    /\ LET r == L0PushFront(q, s) IN
       /\ q' = r.q /\ flat' = s \o flat /\ ok' = TRUE
       /\ last' = [op |-> "push_front", s |-> s, set |-> <<>>, ci |-> FALSE]

Peek == LET r == L0Peek(q) IN
    /\ q' = r.q /\ flat' = flat
    /\ ok' = (r.r = IF flat = <<>> THEN NoneR ELSE CharR(flat[1]))
    /\ last' = [op |-> "peek", s |-> <<>>, set |-> <<>>, ci |-> FALSE]

NextCh == LET r == L0Next(q) IN
    /\ q' = r.q /\ flat' = (IF flat = <<>> THEN flat ELSE Tail(flat))
    /\ ok' = (r.r = IF flat = <<>> THEN NoneR ELSE CharR(flat[1]))
    /\ last' = [op |-> "next", s |-> <<>>, set |-> <<>>, ci |-> FALSE]

PopExcept == \E set \in Sets :
    LET r1 == L1PopExcept(q, set)
        r0 == L0PopExcept(q, set) IN
    /\ q' = r1.q
    /\ flat' = Drop(flat, IF r1.r.k = "char" THEN 1 ELSE Len(r1.r.s))
    /\ ok' = (r1 = r0)
    /\ last' = [op |-> "pop_except", s |-> <<>>, set |-> SetToSeq(set), ci |-> FALSE]

Eat == \E pat \in Pats, ci \in BOOLEAN :
    LET r1 == L1Eat(q, pat, ci)
        r0 == L0Eat(q, pat, ci) IN
    /\ q' = r1.q
    /\ flat' = (IF r1.r = BoolR(TRUE) THEN Drop(flat, Len(pat)) ELSE flat)
    /\ ok' = (r1 = r0)
    /\ last' = [op |-> "eat", s |-> pat, set |-> <<>>, ci |-> ci]

Next == PushBack \/ PushFront \/ Peek \/ NextCh \/ PopExcept \/ Eat

Spec == Init /\ [][Next]_vars

View == <<q, flat, ok>>   \* everything but `last`

\* -- constants for the .cfg (tuples cannot be written in a cfg) ------------
MC_Alphabet == {97, 65, 38, 233, 65536}
MC_Sets == {{}, {38}, {38, 60}}
MC_Pats == {<<97>>, <<97, 38>>, <<65, 97>>, <<233, 97>>, <<65536, 65, 97>>}

\* -- invariants -----------------------------------------------------------
L1AgreesWithL0 == ok
NoEmpty == NoEmptyBuffer(q)
Conservation == Flat(q) = flat      \* nothing lost, duplicated or reordered

\* -- export: one replay case per transition (action constraint, always TRUE)
ExportT == DoExport => PrintT(<<"REPLAY", ToJson([pre |-> q, ops |-> <<last'>>])>>)
=============================================================================
