//! Case generators and trace output for the HTML parser harness.
use crate::parse::*;
use crate::tokgen::{chunkings, random_text};
use crate::util::*;
use serde_json::{json, Value};

pub const FAMILIES: &[(&str, &[&str])] = &[
    ("format", &["<a>", "<b>", "<i>", "<nobr>", "<p>", "<div>", "x", "</a>", "</b>", "</i>", "</p>", "</div>", " ", "<a href=u>", "<b id=q>"]),
    ("table", &["<table>", "<caption>", "<colgroup>", "<col>", "<tbody>", "<tr>", "<td>", "<th>", "x", " ", "<input type=hidden>", "<input>",
                "<form>", "</table>", "</tr>", "</td>", "</tbody>", "<div>", "</caption>", "<thead>", "<tfoot>", "<style>", "</style>", "<b>", "</form>", "<select>"]),
    ("template", &["<template>", "</template>", "<div>", "<td>", "<tr>", "<col>", "x", "<table>", "</table>", "<body>", "<head>", "<html>", "<tbody>", "<caption>", "<frameset>", "<select>", "<option>"]),
    ("select", &["<select>", "<option>", "<optgroup>", "<hr>", "<input>", "</select>", "</option>", "</optgroup>", "x", "<textarea>", "<keygen>",
                 "<selectedcontent>", "<div>", "<option selected>", "<button>", "</button>", "<select multiple>", "</selectedcontent>", "<p>", "<table>", "<td>"]),
    ("head", &["<html>", "<head>", "</head>", "<body>", "</body>", "</html>", "<frameset>", "</frameset>", "<frame>", "<noframes>", "</noframes>",
               "<noscript>", "</noscript>", "<meta>", "<meta charset=utf-8>", "<title>", "</title>", "<link>", "<base>", "x", " ", "<!--c-->", "<!DOCTYPE html>", "<style>",
               "</style>", "<script>", "</script>", "<body a=b>", "<html c=d>", "<template>", "</template>", "<br>", "</br>", "<p>", "<table>"]),
    ("foreign", &["<svg>", "<math>", "<mi>", "<mtext>", "<annotation-xml>", "<annotation-xml encoding=text/html>", "<foreignObject>", "<desc>", "<title>",
                  "<font color=red>", "<font>", "<p>", "</svg>", "</math>", "</p>", "<![CDATA[x]]>", "x", "<b>", "<br>", "</br>", "<mglyph>", "<malignmark>",
                  "<table>", "<svg:g>", "<image>", "<path/>", "</mi>", "</foreignObject>", "<svg definitionurl=a xlink:href=b xml:lang=c xmlns=d>", "<altglyph>", "<script>", "</script>", "<div>", "</desc>", "\0"]),
    ("raw", &["<title>", "<textarea>", "<script>", "<style>", "<plaintext>", "<xmp>", "<iframe>", "<noembed>", "<noframes>", "</title>", "</textarea>",
              "</script>", "</style>", "</xmp>", "x", "<b>", "\n", "<pre>", "<listing>", "</pre>", "&amp;", "\0", "<!--", "-->"]),
    ("lists", &["<ul>", "<ol>", "<li>", "<dl>", "<dt>", "<dd>", "<h1>", "<h2>", "<button>", "<ruby>", "<rb>", "<rt>", "<rtc>", "<rp>", "</li>", "</ul>", "</h1>",
                "</button>", "</dd>", "x", "<p>", "<address>", "<form>", "</form>", "<applet>", "<marquee>", "<object>", "</object>", "<nobr>", "<hr>", "<image>",
                "<br>", "</br>", "</p>", "<body>", "<math>", "<textarea>", "<search>", "<dialog>", "<hgroup>", "<menu>", "<summary>", "<details>", "</applet>", "<isindex>", "</h2>"]),
    ("meta", &["<meta charset=utf-8>", "<meta http-equiv=content-type content=\"text/html; charset=x\">", "<meta content=\"charset=y\" http-equiv=Content-Type>",
               "<meta http-equiv=refresh content=\"charset=z\">", "<meta>", "<head>", "</head>", "<body>", "<table>", "<template>", "<select>", "<svg>",
               "<noscript>", "<frameset>", "</body>", "<caption>", "<td>", "<title>", "</title>", "<math>", "<foreignObject>", "</template>", "x", "<script>", "</script>",
               "<meta charset>", "<META CHARSET=\"a b\" charset=c>", "<p>", "</html>",
               "<link charset=utf-8>", "<base charset=x>", "<bgsound http-equiv=content-type content=\"charset=y\">", "<basefont charset=z>"]),
    ("forms", &["<input>", "<button>", "<select>", "<textarea>", "</textarea>", "<img>", "<fieldset>", "<object>", "<output>", "<label>", "<form>", "</form>",
                "<div>", "</div>", "<table>", "<td>", "x", "<keygen>", "</select>", "</button>", "<template>", "</template>", "<input form=f>", "<b>", "</b>", "<p>"]),
    ("misc", &["<!DOCTYPE html>", "<!DOCTYPE x>", "<!-- c -->", "<?pi?>", "</>", "<a b=c b=d>", "<div id=1 id=2>", "\r\n", "\0", "&lt;", "<html>", "<body>",
               "<wbr>", "<area>", "<param>", "<source>", "<track>", "<embed>", "<img>", "<bgsound>", "x", "<nobr>", "<a>", "<table>", "<xmp>"]),
];

pub const CONTEXTS: &[(&str, &str)] = &[
    ("html", "div"), ("html", "table"), ("html", "tr"), ("html", "td"), ("html", "select"), ("html", "template"), ("html", "title"),
    ("html", "textarea"), ("html", "script"), ("html", "style"), ("html", "plaintext"), ("html", "noscript"), ("html", "html"), ("html", "head"),
    ("html", "body"), ("html", "frameset"), ("html", "caption"), ("html", "colgroup"), ("html", "tbody"), ("html", "option"), ("html", "p"),
    ("svg", "svg"), ("svg", "foreignObject"), ("svg", "title"), ("svg", "desc"), ("mathml", "math"), ("mathml", "mi"), ("mathml", "annotation-xml"),
    ("html", "xmp"), ("html", "iframe"), ("html", "noframes"), ("html", "form"), ("html", "button"), ("html", "li"),
];

pub fn base_case(text: &str) -> Value {
    json!({"mode":"doc","ctx":{"ns":"html","local":cps("div"),"attrs":[]},"scripting":true,"srcdoc":false,"drop_doctype":false,
           "iquirks":"no","exact":false,"bom":true,"tb_exact":false,"chunks":[cps(text)],"gc":false,"quiet":true,"tokens":true,"dump":true})
}

pub fn emit_case(c: &Value, id: u64, out: &mut Out) {
    if std::env::var("VH_NOTE").is_ok() {
        crate::tok::note_current(c);
    }
    let po = run_parse(c);
    let mut cfg = c.clone();
    cfg.as_object_mut().unwrap().remove("chunks");
    out.line(&json!({"ev":"reset","case":id,"cfg":cfg,"chunks":c["chunks"]}));
    for mut e in po.events {
        e["case"] = json!(id);
        out.line(&e);
    }
    out.line(&json!({"ev":"tree","case":id,"dom":po.tree,"quirks":po.quirks,"parents_ok":po.parents_ok,
                     "panic": match &po.panic { Some(m) => json!([cps(m)]), None => json!([]) }, "neof": po.neof}));
}

fn rand_soup(r: &mut Rng, maxpieces: usize) -> String {
    let fam = r.pick(FAMILIES).1;
    let fam2 = r.pick(FAMILIES).1;
    let n = 1 + r.below(maxpieces);
    let mut s = String::new();
    for _ in 0..n {
        match r.below(12) {
            0 => s.push_str(&random_text(r, 6)),
            1 | 2 => {
                let w: &str = *r.pick(fam2);
                s.push_str(w)
            },
            _ => {
                let w: &str = *r.pick(fam);
                s.push_str(w)
            },
        }
    }
    s
}

pub fn main(args: &Args) {
    let mut out = Out::new();
    let shard = args.num("shard", 0);
    let shards = args.num("shards", 1).max(1);
    let how = args.get("chunk").unwrap_or("none").to_string();
    let gc = args.has("gc");
    let loud = args.has("loud");
    let mut id = 0u64;
    let mut cr = Rng::new(args.num("seed", 1) ^ 0x77);
    if args.has("replay") {
        for c in read_cases() {
            if c["ev"] == "reset" {
                let mut case = c["cfg"].clone();
                case["chunks"] = c["chunks"].clone();
                id += 1;
                emit_case(&case, id, &mut out);
            } else if c.get("mode").is_some() {
                id += 1;
                emit_case(&c, id, &mut out);
            }
        }
        out.flush();
        return;
    }
    let mut n = 0u64;
    let mut run = |mut c: Value, out: &mut Out, cr: &mut Rng| {
        n += 1;
        if n % shards != shard {
            return;
        }
        c["gc"] = json!(gc);
        c["quiet"] = json!(!loud);
        let text = from_cps(&c["chunks"][0]);
        for ch in chunkings(&text, &how, cr) {
            let mut c2 = c.clone();
            c2["chunks"] = Value::Array(ch.iter().map(|x| cps(x)).collect());
            id += 1;
            emit_case(&c2, id, out);
        }
    };
    match args.get("mode").unwrap_or("random") {
        "selectedcontent" => {
            // directed: a select with selectedcontent in various places, then k pieces of the select family
            let pres = ["<select><button><selectedcontent></selectedcontent></button>", "<select><selectedcontent>old</selectedcontent>",
                        "<select><div><span><selectedcontent></selectedcontent></span></div><selectedcontent></selectedcontent>",
                        "<select multiple><button><selectedcontent></selectedcontent></button>",
                        "<select><button><selectedcontent></selectedcontent></button><optgroup>"];
            let fam: &[&str] = &["<option selected>", "<option>", "</option>", "x", "<b>y</b>", "<option selected>z<i>w</i>", "</select>", "<optgroup>", "<hr>", "</optgroup>"];
            let k = args.num("k", 3) as usize;
            for pre in pres {
                for len in 1..=k {
                    let total = fam.len().pow(len as u32);
                    for idx in 0..total {
                        let mut s = String::from(pre);
                        let mut x = idx;
                        for _ in 0..len {
                            s.push_str(fam[x % fam.len()]);
                            x /= fam.len();
                        }
                        run(base_case(&s), &mut out, &mut cr);
                    }
                }
            }
        },
        "enum" => {
            let k = args.num("k", 3) as usize;
            let only = args.get("family");
            for (name, fam) in FAMILIES {
                if only.is_some() && only != Some(*name) {
                    continue;
                }
                let np = (args.num("pieces", 14) as usize).min(fam.len());
                for len in 1..=k {
                    let total = np.pow(len as u32);
                    for idx in 0..total {
                        let mut s = String::new();
                        let mut x = idx;
                        for _ in 0..len {
                            s.push_str(fam[x % np]);
                            x /= np;
                        }
                        // document, scripting on/off for the head family, and two fragment contexts
                        run(base_case(&s), &mut out, &mut cr);
                        if *name == "head" || *name == "raw" {
                            let mut c = base_case(&s);
                            c["scripting"] = json!(false);
                            run(c, &mut out, &mut cr);
                        }
                        if len <= 2 {
                            for (ci, (ns, local)) in CONTEXTS.iter().enumerate() {
                                let mut c = base_case(&s);
                                c["mode"] = json!("frag");
                                c["ctx"] = json!({"ns":ns,"local":cps(local),"attrs":[]});
                                c["form_owner"] = json!(ci % 3 == 0);
                                run(c, &mut out, &mut cr);
                            }
                        }
                    }
                }
            }
        },
        _ => {
            let mut r = Rng::new(args.num("seed", 1));
            let cnt = args.num("n", 100);
            let maxp = args.num("maxpieces", 12) as usize;
            for _ in 0..cnt {
                let mut c = base_case(&rand_soup(&mut r, maxp));
                if r.chance(1, 3) {
                    let (ns, local) = *r.pick(CONTEXTS);
                    c["mode"] = json!("frag");
                    c["ctx"] = json!({"ns":ns,"local":cps(local),"attrs":[]});
                    c["form_owner"] = json!(r.chance(1, 2));
                }
                c["scripting"] = json!(r.chance(2, 3));
                if r.chance(1, 10) {
                    c["srcdoc"] = json!(true);
                }
                run(c, &mut out, &mut cr);
            }
        },
    }
    out.flush();
}
