SPECIFICATION Spec
CONSTANTS
  MaxEvents = 5
  Defects = {}
INVARIANT EveryUsedPrefixDeclared
CHECK_DEADLOCK FALSE
