"""C01 - HTML tokenization equals the WHATWG tokenization algorithm."""
import os
from . import core
from .core import Run, WORK

RULE = ("MC_HtmlTokenizer explores the L0 (WHATWG) tokenizer from every start state x last start tag x CDATA answer over "
        "all piece strings up to the bound, checks well-formedness invariants, and exports every explored "
        "(configuration, input) as a replay case for the real tokenizer; the harness additionally enumerates piece "
        "strings (k pieces) from every start state, SIMD-stride-directed inputs and seeded random strings over all of "
        "Unicode.  Every real run is judged by TLC: delivered tokens (errors dropped, adjacent character tokens "
        "concatenated, NUL distinct, one EOF) = Tokenize(cfg, Normalize(input)).")
SPEC, CFG = "Trace_HtmlTok.tla", "Trace_HtmlTok.cfg"


def classify(f, objs):
    return False


def run(tier, seed, replay=None):
    r = Run("C01", tier, seed)
    core.build_harness()
    if replay:
        meta, lines = core.load_replay(replay)
        src = os.path.join(WORK, "traces", "C01-replay-in.ndjson")
        with open(src, "w") as f:
            f.write("\n".join(lines) + "\n")
        r.gen_validate("replay", ["tok", "--replay"], SPEC, CFG, 1, classify, core.count_lines, stdin_files=[src])
        return r.finish(RULE, write=False)
    quick = tier == "quick"
    cases = os.path.join(WORK, "traces", "C01-mc-cases.ndjson")
    cfg = "MC_HtmlTokenizer.cfg" if quick else "MC_HtmlTokenizer_thorough.cfg"
    res = core.tlc_mc("C01-mc", "MC_HtmlTokenizer.tla", cfg, replay_out=cases, timeout=5000, xmx="24g", coverage=False)
    r.add_mc(cfg, res)
    N = core.NCPU
    if res["ok"]:
        parts, n = core.split_file(cases, N)
        r.gen_validate("mc-explored", ["tok", "--replay"], SPEC, CFG, len(parts), classify, core.count_lines,
                       stdin_files=parts, xmx="3g" if quick else "6g", timeout=5000)
        r.extra["mc_cases_replayed"] = n
    r.gen_validate("enum-k2-all-pieces", ["tok", "--mode", "enum", "--k", 2], SPEC, CFG, N, classify, core.count_lines)
    r.gen_validate("prefixed-k2-all-pieces", ["tok", "--mode", "prefixed", "--k", 2], SPEC, CFG, N, classify, core.count_lines)
    r.gen_validate("prefixed-k3-core-pieces", ["tok", "--mode", "prefixed", "--k", 3, "--pieces", 13], SPEC, CFG, N, classify, core.count_lines)
    # after "<a b" / "<a b=" / inside values: all line-break kinds x quotes, '>', whitespace, error characters (k=3 of 12)
    r.gen_validate("attr-linebreaks-k3", ["tok", "--mode", "prefixed", "--pset", "attr", "--prefix-contains", "<a b", "--k", 3, "--pieces", 12],
                   SPEC, CFG, N, classify, core.count_lines)
    r.gen_validate("enum-k3-core-pieces", ["tok", "--mode", "enum", "--k", 3, "--pieces", 12], SPEC, CFG, N, classify, core.count_lines)
    if not quick:
        r.gen_validate("enum-k3-all-pieces", ["tok", "--mode", "enum", "--k", 3], SPEC, CFG, N * 4, classify,
                       core.count_lines, xmx="3g", timeout=5000)
        r.gen_validate("prefixed-k3-all-pieces", ["tok", "--mode", "prefixed", "--k", 3], SPEC, CFG, N * 2, classify,
                       core.count_lines, xmx="3g", timeout=5000)
        r.gen_validate("enum-k4-core-pieces", ["tok", "--mode", "enum", "--k", 4, "--pieces", 12], SPEC, CFG, N * 2, classify,
                       core.count_lines, xmx="3g", timeout=5000)
    r.gen_validate("simd-stride", ["tok", "--mode", "stride"], SPEC, CFG, 2, classify, core.count_lines)
    r.gen_validate("random", ["tok", "--mode", "random", "--n", 2500 if quick else 25000, "--maxlen", 80 if quick else 200],
                   SPEC, CFG, N, classify, core.count_lines, timeout=5000)
    r.assumptions = [
        "L0 is my transcription of WHATWG 13.2.5 (written without network access); tables are generated from independent "
        "sources (Python html.entities.html5, cp1252 codec)",
        "start states that presuppose an attribute under construction, and the two html5ever states with no WHATWG "
        "counterpart (RawEndTagOpen/RawEndTagName of the double-escaped kind), are not used as start states",
        "empty character tokens carry no character data and are ignored by the normalisation",
        "discard_bom is off in C01 runs (BOM handling belongs to C08)"]
    return r.finish(RULE)
