SPECIFICATION Spec
CONSTANTS
  Threads = {t1, t2, t3}
  MaxViews = 4
  DestroyWhenOldIs = 2
INVARIANTS NoUseAfterFree DestroyedOnce RefcountIsViews NothingLeft
CHECK_DEADLOCK FALSE
