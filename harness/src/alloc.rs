//! Allocation observer (C12): a global allocator wrapper that, while a tendril case is being
//! recorded on this thread's process, tracks every allocation made (a live table with guard
//! zones), detects frees of blocks that are not live (double free), damaged guard zones
//! (out-of-bounds writes) and blocks still live at the end.  It reports counts; the TLA+ trace
//! specification decides.
use std::alloc::{GlobalAlloc, Layout, System};
use std::sync::atomic::{AtomicBool, AtomicUsize, Ordering};

const GUARD: usize = 32;
const CANARY: u8 = 0xA5;
const TABLE: usize = 1 << 14;

pub struct Observer;

static RECORDING: AtomicBool = AtomicBool::new(false);
static LOCK: AtomicBool = AtomicBool::new(false);
static mut PTRS: [usize; TABLE] = [0; TABLE];
static mut SIZES: [usize; TABLE] = [0; TABLE];
static mut FREED: [usize; TABLE] = [0; TABLE]; // quarantine of freed blocks (kept, to recognise double frees)
static NFREED: AtomicUsize = AtomicUsize::new(0);
static ALLOCS: AtomicUsize = AtomicUsize::new(0);
static FREES: AtomicUsize = AtomicUsize::new(0);
static DOUBLE: AtomicUsize = AtomicUsize::new(0);
static CANARYBAD: AtomicUsize = AtomicUsize::new(0);
static FOREIGN: AtomicUsize = AtomicUsize::new(0);

fn lock() {
    while LOCK.compare_exchange_weak(false, true, Ordering::Acquire, Ordering::Relaxed).is_err() {
        std::hint::spin_loop();
    }
}
fn unlock() {
    LOCK.store(false, Ordering::Release);
}

unsafe fn table_insert(p: usize, size: usize) {
    let mut i = (p >> 4) % TABLE;
    for _ in 0..TABLE {
        if PTRS[i] == 0 || PTRS[i] == 1 {
            PTRS[i] = p;
            SIZES[i] = size;
            return;
        }
        i = (i + 1) % TABLE;
    }
}
unsafe fn table_remove(p: usize) -> Option<usize> {
    let mut i = (p >> 4) % TABLE;
    for _ in 0..TABLE {
        if PTRS[i] == p {
            PTRS[i] = 1; // tombstone
            return Some(SIZES[i]);
        }
        if PTRS[i] == 0 {
            return None;
        }
        i = (i + 1) % TABLE;
    }
    None
}

unsafe impl GlobalAlloc for Observer {
    unsafe fn alloc(&self, layout: Layout) -> *mut u8 {
        if !RECORDING.load(Ordering::Relaxed) || layout.align() > GUARD {
            return System.alloc(layout);
        }
        let total = layout.size() + 2 * GUARD;
        let base = System.alloc(Layout::from_size_align_unchecked(total, GUARD));
        if base.is_null() {
            return base;
        }
        std::ptr::write_bytes(base, CANARY, GUARD);
        std::ptr::write_bytes(base.add(GUARD + layout.size()), CANARY, GUARD);
        let user = base.add(GUARD);
        lock();
        table_insert(user as usize, layout.size());
        unlock();
        ALLOCS.fetch_add(1, Ordering::Relaxed);
        user
    }
    unsafe fn dealloc(&self, ptr: *mut u8, layout: Layout) {
        lock();
        let found = table_remove(ptr as usize);
        let mut was_freed = false;
        if found.is_none() {
            let n = NFREED.load(Ordering::Relaxed).min(TABLE);
            for k in 0..n {
                if FREED[k] == ptr as usize {
                    was_freed = true;
                    break;
                }
            }
        }
        unlock();
        match found {
            Some(size) => {
                let base = ptr.sub(GUARD);
                let mut ok = true;
                for k in 0..GUARD {
                    if *base.add(k) != CANARY || *ptr.add(size + k) != CANARY {
                        ok = false;
                    }
                }
                if !ok {
                    CANARYBAD.fetch_add(1, Ordering::Relaxed);
                }
                FREES.fetch_add(1, Ordering::Relaxed);
                // quarantine: remember the address, do not reuse the block while recording
                let k = NFREED.fetch_add(1, Ordering::Relaxed);
                if k < TABLE {
                    lock();
                    FREED[k] = ptr as usize;
                    unlock();
                }
                // the block is intentionally leaked (bounded by the case size)
            },
            None => {
                if was_freed {
                    DOUBLE.fetch_add(1, Ordering::Relaxed);
                    // do not pass a double free to the system allocator
                } else {
                    if RECORDING.load(Ordering::Relaxed) {
                        FOREIGN.fetch_add(1, Ordering::Relaxed);
                    }
                    System.dealloc(ptr, layout);
                }
            },
        }
    }
    unsafe fn realloc(&self, ptr: *mut u8, layout: Layout, new_size: usize) -> *mut u8 {
        lock();
        let tracked = {
            let mut i = (ptr as usize >> 4) % TABLE;
            let mut f = false;
            for _ in 0..TABLE {
                if PTRS[i] == ptr as usize {
                    f = true;
                    break;
                }
                if PTRS[i] == 0 {
                    break;
                }
                i = (i + 1) % TABLE;
            }
            f
        };
        unlock();
        if !tracked && !RECORDING.load(Ordering::Relaxed) {
            return System.realloc(ptr, layout, new_size);
        }
        let new_layout = Layout::from_size_align_unchecked(new_size, layout.align());
        let n = self.alloc(new_layout);
        if !n.is_null() {
            std::ptr::copy_nonoverlapping(ptr, n, layout.size().min(new_size));
            self.dealloc(ptr, layout);
        }
        n
    }
}

pub struct Report {
    pub allocs: usize,
    pub frees: usize,
    pub live: usize,
    pub double_free: usize,
    pub canary: usize,
    pub foreign_free: usize,
}

/// start recording (single recorder at a time; the tendril drivers are run one case at a time)
pub fn begin() {
    lock();
    unsafe {
        for i in 0..TABLE {
            PTRS[i] = 0;
        }
    }
    unlock();
    NFREED.store(0, Ordering::Relaxed);
    for c in [&ALLOCS, &FREES, &DOUBLE, &CANARYBAD, &FOREIGN] {
        c.store(0, Ordering::Relaxed);
    }
}

/// record allocations made from now on / stop recording (frees of recorded blocks are always seen)
pub fn on() {
    RECORDING.store(true, Ordering::SeqCst);
}
pub fn off() {
    RECORDING.store(false, Ordering::SeqCst);
}

pub fn end() -> Report {
    RECORDING.store(false, Ordering::SeqCst);
    lock();
    let live = unsafe { (0..TABLE).filter(|i| PTRS[*i] > 1).count() };
    unlock();
    Report {
        allocs: ALLOCS.load(Ordering::Relaxed),
        frees: FREES.load(Ordering::Relaxed),
        live,
        double_free: DOUBLE.load(Ordering::Relaxed),
        canary: CANARYBAD.load(Ordering::Relaxed),
        foreign_free: FOREIGN.load(Ordering::Relaxed),
    }
}
