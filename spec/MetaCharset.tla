---------------------------- MODULE MetaCharset ----------------------------
(***************************************************************************)
(* L0: WHATWG "algorithm for extracting a character encoding from a meta   *)
(* element" (13.2.3.? "extracting-character-encodings-from-meta-elements") *)
(* and the condition under which a meta start tag declares an encoding     *)
(* (13.2.6.4.4, "in head", start tag "meta").  Labels are returned as      *)
(* written (html5ever does not validate them; neither does this model).    *)
(***************************************************************************)
EXTENDS Chars

IsAsciiWsAll(c) == c \in {9, 10, 12, 13, 32}
S_charset == <<99, 104, 97, 114, 115, 101, 116>>
S_httpequiv == <<104, 116, 116, 112, 45, 101, 113, 117, 105, 118>>
S_content == <<99, 111, 110, 116, 101, 110, 116>>
S_contenttype == <<99, 111, 110, 116, 101, 110, 116, 45, 116, 121, 112, 101>>

MatchCIAt(s, p, pat) == p + Len(pat) - 1 <= Len(s) /\ \A j \in 1..Len(pat) : Lower(s[p + j - 1]) = pat[j]

\* first position >= p where "charset" matches case-insensitively; 0 if none
RECURSIVE FindCharset(_, _)
FindCharset(s, p) == IF p + 6 > Len(s) THEN 0 ELSE IF MatchCIAt(s, p, S_charset) THEN p ELSE FindCharset(s, p + 1)

RECURSIVE SkipWs(_, _)
SkipWs(s, p) == IF p <= Len(s) /\ IsAsciiWsAll(s[p]) THEN SkipWs(s, p + 1) ELSE p

\* first position >= p of a character satisfying the predicate given as a set; Len(s)+1 if none
RECURSIVE FindIn(_, _, _)
FindIn(s, p, set) == IF p > Len(s) THEN Len(s) + 1 ELSE IF s[p] \in set THEN p ELSE FindIn(s, p + 1, set)

\* Extract(s) = <<>> (nothing) or <<label>>
RECURSIVE ExtractFrom(_, _)
ExtractFrom(s, pos) ==
    LET c == FindCharset(s, pos) IN
    IF c = 0 THEN <<>>
    ELSE LET p1 == SkipWs(s, c + 7) IN
         IF p1 > Len(s) THEN <<>>
         ELSE IF s[p1] # 61 THEN ExtractFrom(s, p1)          \* not '=': search again from that character
         ELSE LET p2 == SkipWs(s, p1 + 1) IN
              IF p2 > Len(s) THEN <<>>
              ELSE IF s[p2] = 34 \/ s[p2] = 39 THEN
                  LET q == FindIn(s, p2 + 1, {s[p2]}) IN
                  IF q > Len(s) THEN <<>> ELSE <<SubSeq(s, p2 + 1, q - 1)>>
              ELSE LET q == FindIn(s, p2, {9, 10, 12, 13, 32, 59}) IN <<SubSeq(s, p2, q - 1)>>
Extract(s) == ExtractFrom(s, 1)

\* attrs: sequence of [n |-> name, v |-> value] (token attributes, unique names)
AttrVal(attrs, name) == LET idx == {i \in DOMAIN attrs : attrs[i].n = name} IN
                        IF idx = {} THEN <<>> ELSE <<attrs[CHOOSE i \in idx : TRUE].v>>

\* the label a meta start tag declares: <<>> or <<label>>
DeclaredLabel(attrs) ==
    LET cs == AttrVal(attrs, S_charset)
        he == AttrVal(attrs, S_httpequiv)
        ct == AttrVal(attrs, S_content) IN
    IF cs # <<>> THEN cs
    ELSE IF he # <<>> /\ LowerSeq(he[1]) = S_contenttype /\ ct # <<>> THEN Extract(ct[1])
    ELSE <<>>
=============================================================================
