------------------------------- MODULE MC_Utf8 -------------------------------
(***************************************************************************)
(* All byte strings up to MaxLen over class representatives, under every   *)
(* chunking (each Feed appends any chunk, the empty one included).         *)
(* Refinement: streaming L1 output = L0 Lossy of the concatenation, at     *)
(* every point (for the part not carried) and after finish().              *)
(***************************************************************************)
EXTENDS Utf8, TLC, Json

CONSTANTS Bytes, MaxLen, MaxChunk, DoExport
VARIABLES fed, st, done, chunks

vars == <<fed, st, done, chunks>>

Chunks == UNION {[1..n -> Bytes] : n \in 0..MaxChunk}

Init == fed = <<>> /\ st = L1Init /\ done = FALSE /\ chunks = <<>>

Feed == /\ ~done
        /\ \E c \in Chunks :
            /\ Len(fed) + Len(c) <= MaxLen
            /\ (IF c = <<>> /\ chunks # <<>> THEN chunks[Len(chunks)] # <<>> ELSE TRUE)   \* no two empty chunks in a row
            /\ fed' = fed \o c
            /\ st' = L1Process(st, c)
            /\ chunks' = Append(chunks, c)
            /\ done' = FALSE

Finish == /\ ~done
          /\ done' = TRUE
          /\ st' = L1Finish(st)
          /\ UNCHANGED <<fed, chunks>>

Next == Feed \/ Finish
Spec == Init /\ [][Next]_vars

View == <<fed, st, done, IF chunks = <<>> THEN 0 ELSE IF chunks[Len(chunks)] = <<>> THEN 1 ELSE 2>>

\* the carried bytes are a proper, so-far well-formed prefix and a suffix of the input
CarryOk == st.inc = <<>> \/
           (/\ Len(st.inc) <= 3 /\ Len(st.inc) <= Len(fed)
            /\ Drop(fed, Len(fed) - Len(st.inc)) = st.inc
            /\ Classify(st.inc, 1)[1] = "trunc" /\ Classify(st.inc, 1)[2] = Len(st.inc))

\* streaming refinement: what was delivered is the lossy decode of what is not carried
Streaming == ~done => LET l == Lossy(Take(fed, Len(fed) - Len(st.inc))) IN st.out = l.cps /\ st.nerr = l.nerr

Final == done => (st.out = Lossy(fed).cps /\ st.nerr = Lossy(fed).nerr /\ st.inc = <<>>)

MC_Bytes == {65, 128, 159, 160, 191, 192, 194, 223, 224, 225, 237, 238, 240, 241, 244, 245, 255, 0}
MC_BytesQuick == {65, 128, 160, 191, 194, 224, 237, 240, 244, 255}

ExportDone == (done /\ DoExport) => PrintT(<<"REPLAY", ToJson([chunks |-> chunks])>>)
=============================================================================
