"""C02 - HTML tree construction equals the WHATWG tree-construction algorithm."""
import os
from . import core
from .core import Run, WORK, ROOT

SPEC, CFG = "Trace_Tree.tla", "Trace_Tree.cfg"
E2E = [("Trace_Parse.tla", "Trace_Parse.cfg")]      # second judge: the composed L0 parser run on the raw input
TABLES = os.path.join(ROOT, "gen", "c02_tables.json")

RULE = ("Two judges.  (1) Trace_Tree: L0 = HtmlTreeBuilder/HtmlTreeRules, a TLA+ transcription of WHATWG 13.2.6 (every insertion mode, foreign content, "
        "dispatcher, adoption agency with its 8/3 limits, reconstruction with Noah's ark, foster parenting, template mode "
        "stack, reset of the insertion mode, scopes, fragment set-up, quirks decision).  The real tree builder (behind the "
        "real tokenizer, monitoring sink around RcDom) parses each case; the tokens it received, its tokenizer-state "
        "replies, its answers to the CDATA question, RcDom's final tree with each element's duplicate-attribute flag, and "
        "the quirks mode reported to the sink are recorded.  TLC runs L0 over the same tokens and requires identity of "
        "tree, quirks mode, per-token tokenizer-state switch, CDATA answers and fragment start state.  (2) Trace_Parse: the "
        "composed L0 parser (HtmlParser: preprocessing, L0 tokenizer, L0 tree construction, both feedback edges) is run on "
        "the raw input text and must yield the same tree and quirks mode.  MC_TreeBuilder / MC_HtmlParser model-check the "
        "structural invariants and export every explored token sequence / input text for replay on the real code.")


def count_cases(path):
    return core.count_lines(path)


def run(tier, seed, replay=None):
    N = core.NCPU
    q = tier == "quick"
    r = Run("C02", tier, seed)
    core.build_harness()
    classify = lambda f, objs: False
    if replay:
        meta, lines = core.load_replay(replay)
        src = os.path.join(WORK, "traces", "C02-replay-in.ndjson")
        with open(src, "w") as f:
            f.write("\n".join(lines) + "\n")
        r.gen_validate("replay", ["parse", "--replay", "--c02"], SPEC, CFG, 1, classify, count_cases, stdin_files=[src], also=E2E)
        return r.finish(RULE, write=False)
    # model checking of L0 itself (structural invariants, C06 skeleton at EOF) over token vocabularies; every explored
    # token sequence is then fed token by token to the real tree builder and judged like the recorded parses
    mcs = ["format", "table", "foreign", "head", "select", "lists", "template", "raw"]

    def one_mc(name):
        cases = os.path.join(WORK, "traces", "C02-MC_TreeBuilder_%s-cases.ndjson" % name)
        cfg = "MC_TreeBuilder_%s%s.cfg" % (name, "" if q else "_thorough")
        return name, cases, core.tlc_mc("C02-MC_TreeBuilder_" + name, "MC_TreeBuilder.tla", cfg, workers=4 if q else 8,
                                        timeout=7000, xmx="6g" if q else "12g", replay_out=cases)
    results = core.parallel([(one_mc, (n,), {}) for n in mcs], max_workers=4 if q else 2)
    allcases = os.path.join(WORK, "traces", "C02-MC_TreeBuilder-all-cases.ndjson")
    with open(allcases, "w") as w:
        for (name, cases, res) in results:
            r.add_mc("MC_TreeBuilder_" + name, res)
            if res["ok"] and res["replays"]:
                with open(cases) as f:
                    w.write(f.read())
    parts, nrep = core.split_file(allcases, N)
    r.gen_validate("mc-explored-token-sequences", ["parse", "--replay", "--c02"], SPEC, CFG, len(parts), classify, count_cases,
                   stdin_files=parts, timeout=7000, xmx="4g")
    r.extra["mc_token_sequences_replayed"] = nrep
    # model checking of the composed L0 parser over input texts; every explored text is parsed by the real parser

    def one_text_mc(suffix):
        name = "MC_HtmlParser" + suffix
        cases = os.path.join(WORK, "traces", "C02-%s-cases.ndjson" % name)
        return name, cases, core.tlc_mc("C02-" + name, "MC_HtmlParser.tla", name + ("" if q else "_thorough") + ".cfg", workers=5, timeout=7000,
                                        xmx="8g", replay_out=cases)
    alltexts = os.path.join(WORK, "traces", "C02-MC_HtmlParser-all-cases.ndjson")
    with open(alltexts, "w") as w:
        for (name, cases, res) in core.parallel([(one_text_mc, (sfx,), {}) for sfx in ("", "_b", "_c")], max_workers=3):
            r.add_mc(name, res)
            if res["ok"] and res["replays"]:
                with open(cases) as f:
                    w.write(f.read())
    parts, ntext = core.split_file(alltexts, N)
    r.gen_validate("mc-explored-texts", ["parse", "--replay", "--c02"], SPEC, CFG, len(parts), classify, count_cases,
                   stdin_files=parts, timeout=7000, xmx="4g", also=E2E)
    r.extra["mc_texts_replayed"] = ntext
    P = ["parse", "--c02"]
    plans = [
        # every pair of vocabulary pieces of every family, as a document and under all 46 fragment contexts
        ("pairs", P + ["--mode", "enum", "--k", 2, "--pieces", 36 if q else 60], N),
        # the standard's tables one entry at a time: quirks identifiers, SVG tag/attribute adjustments, foreign
        # attributes, the special category (through the adoption agency, li/dd/dt, any-other-end-tag), break-out tags
        ("tables", P + ["--mode", "tables", "--tables", TABLES], N),
        ("triples", P + ["--mode", "enum", "--k", 3, "--pieces", 12 if q else 22], N),
        # depth for the algorithms with loop limits: adoption agency (8 outer / 3 inner), Noah's ark (3 + 1)
        ("aaa-deep", P + ["--mode", "enum", "--family", "aaa", "--k", 5 if q else 6, "--pieces", 8 if q else 9], N),
        ("ark-deep", P + ["--mode", "enum", "--family", "ark", "--k", 5 if q else 6, "--pieces", 7 if q else 9], N),
        ("ruby-k4", P + ["--mode", "enum", "--family", "ruby", "--k", 4 if q else 5, "--pieces", 8 if q else 11], N),
        ("lf-k3", P + ["--mode", "enum", "--family", "lf", "--k", 3 if q else 4, "--pieces", 19], N),
        ("selectedcontent", P + ["--mode", "selectedcontent", "--k", 3 if q else 4], N),
        ("random", P + ["--mode", "random", "--n", 10000 if q else 200000, "--maxpieces", 14], N),
        ("random-long-chunked", P + ["--mode", "random", "--n", 250 if q else 2500, "--maxpieces", 40, "--chunk", "some"], N),
    ]
    # plans judged end to end as well (raw input -> L0 parser), not only from the recorded tokens
    e2e = {"tables", "lf-k3", "random", "random-long-chunked"} | (set() if q else {"pairs", "ruby-k4"})
    for (label, args, shards) in plans:
        r.gen_validate(label, args, SPEC, CFG, shards, classify, count_cases, timeout=7000, xmx="4g", also=E2E if label in e2e else ())
    r.assumptions = [
        "the input of L0 is the token stream the tree builder actually received (the tokenizer is judged against its own L0 "
        "in C01; its state switches requested by the tree builder are judged here per token)",
        "no script touches the tree (the harness resumes after every script suspension without running anything)",
        "2025 select/option/optgroup/selectedcontent parsing is transcribed with low confidence: a disagreement on a run "
        "through those rules is reported UNDECIDED, not as a violation",
        "ParseError tokens and empty character tokens are not tokens of the standard and are skipped by L0",
        "drop_doctype (an html5ever option outside the standard) is modelled as: the doctype node is not appended",
    ]
    return r.finish(RULE)
