----------------------------- MODULE MC_CharRef -----------------------------
(***************************************************************************)
(* Table-level invariants of the named character reference table and of    *)
(* the numeric mapping, and export of the finite C14 domain: every name of *)
(* the table is printed as a replay seed (the harness expands each into    *)
(* its variants x follower classes x contexts).                            *)
(***************************************************************************)
EXTENDS CharRef, TLC, Json, FiniteSets

VARIABLES g      \* index into the first-character groups
AllRows == UNION {{EntRows(c)[i] : i \in DOMAIN EntRows(c)} : c \in EntFirstChars}
Names == {r[1] : r \in AllRows}

NameShape == \A n \in Names :
    /\ Len(n) >= 2
    /\ \A i \in 1..(Len(n) - 1) : IsAsciiAlnum(n[i])
    /\ (IsAsciiAlnum(n[Len(n)]) \/ n[Len(n)] = SEMI)

\* every legacy (no-semicolon) name also exists with a semicolon and means the same
LegacyConsistent == \A r \in AllRows :
    r[1][Len(r[1])] # SEMI => \E q \in AllRows : q[1] = Append(r[1], SEMI) /\ q[2] = r[2] /\ q[3] = r[3]

Values == \A r \in AllRows : r[2] > 0 /\ r[2] <= 1114111 /\ r[3] >= 0 /\ ~IsSurrogate(r[2])
Count == Cardinality(AllRows) = EntityCount /\ Cardinality(Names) = EntityCount

\* numeric mapping: total, never yields NUL, a surrogate or an out-of-range scalar
NumericTotal == \A n \in (0..70000) \cup (1114100..1114112) :
    LET v == NumericValue(n) IN v > 0 /\ v <= 1114111 /\ ~IsSurrogate(v)

ASSUME NameShape /\ LegacyConsistent /\ Values /\ Count /\ NumericTotal
ASSUME \A n \in Names : PrintT(<<"REPLAY", ToJson([name |-> n])>>)

Init == g = 0
Next == g < 1 /\ g' = g + 1
Spec == Init /\ [][Next]_g
=============================================================================
