----------------------------- MODULE MC_Tendril -----------------------------
(***************************************************************************)
(* All histories of tendril operations over a pool of slots: the L1        *)
(* representation machine must keep every live tendril's view equal to the *)
(* L0 value (so mutating one never changes another), keep every value      *)
(* valid in the format, fail exactly when L0 says so (by construction: the *)
(* checked operations consult L0), and keep the heap invariants (C12):     *)
(* refcount = number of views, bounds, freed only after the last user,     *)
(* nothing live once every tendril is gone.                                *)
(***************************************************************************)
EXTENDS Tendril, TLC, Json

CONSTANTS Slots, MaxLen, MaxOps, Fmt, Pieces, Offs, DoExport
VARIABLES heap, ts, vals, hist
vars == <<heap, ts, vals, hist>>

Free(i) == ts[i].k = "none"
Live(i) == ts[i].k # "none"
Ev(e) == hist' = Append(hist, e)
E(op, i, j, a, b, x, res) == [op |-> op, i |-> i, j |-> j, a |-> a, b |-> b, x |-> x, res |-> res]

Init == heap = <<>> /\ ts = [i \in 1..Slots |-> NoT] /\ vals = [i \in 1..Slots |-> <<>>] /\ hist = <<>>

AFrom == \E i \in 1..Slots, x \in Pieces \cup {<<>>} :
    /\ Free(i)
    /\ LET r0 == L0TryFrom(Fmt, x) IN
       IF r0.ok THEN LET r == FromBytes(heap, x) IN
                     heap' = r.heap /\ ts' = [ts EXCEPT ![i] = r.t] /\ vals' = [vals EXCEPT ![i] = x]
                     /\ Ev(E("from", i, 0, 0, 0, x, "ok"))
       ELSE UNCHANGED <<heap, ts, vals>> /\ Ev(E("from", i, 0, 0, 0, x, r0.err))

APush == \E i \in 1..Slots, x \in Pieces :
    /\ Live(i) /\ Len(vals[i]) + Len(x) <= MaxLen
    /\ LET r0 == L0TryPush(Fmt, vals[i], x) IN
       IF r0.ok THEN LET r == PushBytes(heap, ts[i], x) IN
                     heap' = r.heap /\ ts' = [ts EXCEPT ![i] = r.t] /\ vals' = [vals EXCEPT ![i] = r0.val]
                     /\ Ev(E("push", i, 0, 0, 0, x, "ok"))
       ELSE UNCHANGED <<heap, ts, vals>> /\ Ev(E("push", i, 0, 0, 0, x, r0.err))

APushT == \E i, j \in 1..Slots :
    /\ Live(i) /\ Live(j) /\ i # j /\ Len(vals[i]) + Len(vals[j]) <= MaxLen
    /\ LET r == PushTendril(heap, ts[i], ts[j]) IN
       heap' = r.heap /\ ts' = [ts EXCEPT ![i] = r.t] /\ vals' = [vals EXCEPT ![i] = vals[i] \o vals[j]]
    /\ Ev(E("push_tendril", i, j, 0, 0, <<>>, "ok"))

ASub == \E i, j \in 1..Slots, off \in Offs, len \in Offs :
    /\ Live(i) /\ Free(j) /\ off <= Len(vals[i]) + 1 /\ len <= Len(vals[i]) + 1
    /\ LET r0 == L0TrySub(Fmt, vals[i], off, len) IN
       IF r0.ok THEN LET r == SubT(heap, ts[i], off, len) IN
                     heap' = r.heap /\ ts' = [ts EXCEPT ![i] = r.t, ![j] = r.r] /\ vals' = [vals EXCEPT ![j] = r0.val]
                     /\ Ev(E("sub", i, j, off, len, <<>>, "ok"))
       ELSE UNCHANGED <<heap, ts, vals>> /\ Ev(E("sub", i, j, off, len, <<>>, r0.err))

APopFront == \E i \in 1..Slots, n \in Offs :
    /\ Live(i) /\ n <= Len(vals[i]) + 1
    /\ LET r0 == L0TryPopFront(Fmt, vals[i], n) IN
       IF r0.ok /\ n > 0 THEN LET r == PopFront(heap, ts[i], n) IN
                     heap' = r.heap /\ ts' = [ts EXCEPT ![i] = r.t] /\ vals' = [vals EXCEPT ![i] = r0.val]
                     /\ Ev(E("pop_front", i, 0, n, 0, <<>>, "ok"))
       ELSE UNCHANGED <<heap, ts, vals>> /\ Ev(E("pop_front", i, 0, n, 0, <<>>, IF r0.ok THEN "ok" ELSE r0.err))

APopBack == \E i \in 1..Slots, n \in Offs :
    /\ Live(i) /\ n <= Len(vals[i]) + 1
    /\ LET r0 == L0TryPopBack(Fmt, vals[i], n) IN
       IF r0.ok /\ n > 0 THEN LET r == PopBack(heap, ts[i], n) IN
                     heap' = r.heap /\ ts' = [ts EXCEPT ![i] = r.t] /\ vals' = [vals EXCEPT ![i] = r0.val]
                     /\ Ev(E("pop_back", i, 0, n, 0, <<>>, "ok"))
       ELSE UNCHANGED <<heap, ts, vals>> /\ Ev(E("pop_back", i, 0, n, 0, <<>>, IF r0.ok THEN "ok" ELSE r0.err))

AClone == \E i, j \in 1..Slots :
    /\ Live(i) /\ Free(j)
    /\ LET r == CloneT(heap, ts[i]) IN
       heap' = r.heap /\ ts' = [ts EXCEPT ![i] = r.t, ![j] = r.r] /\ vals' = [vals EXCEPT ![j] = vals[i]]
    /\ Ev(E("clone", i, j, 0, 0, <<>>, "ok"))

AClear == \E i \in 1..Slots :
    /\ Live(i) /\ vals[i] # <<>>
    /\ LET r == ClearT(heap, ts[i]) IN heap' = r.heap /\ ts' = [ts EXCEPT ![i] = r.t] /\ vals' = [vals EXCEPT ![i] = <<>>]
    /\ Ev(E("clear", i, 0, 0, 0, <<>>, "ok"))

AWrite == \E i \in 1..Slots, k \in Offs \ {0} :
    /\ Fmt = "bytes" /\ Live(i) /\ k <= Len(vals[i])
    /\ LET r == WriteByte(heap, ts[i], k, 9) IN
       heap' = r.heap /\ ts' = [ts EXCEPT ![i] = r.t] /\ vals' = [vals EXCEPT ![i] = [@ EXCEPT ![k] = 9]]
    /\ Ev(E("write", i, 0, k, 9, <<>>, "ok"))

ADrop == \E i \in 1..Slots :
    /\ Live(i)
    /\ heap' = DropT(heap, ts[i]) /\ ts' = [ts EXCEPT ![i] = NoT] /\ vals' = [vals EXCEPT ![i] = <<>>]
    /\ Ev(E("drop", i, 0, 0, 0, <<>>, "ok"))

Next == /\ Len(hist) < MaxOps
        /\ (AFrom \/ APush \/ APushT \/ ASub \/ APopFront \/ APopBack \/ AClone \/ AClear \/ AWrite \/ ADrop)
Spec == Init /\ [][Next]_vars
ViewSt == <<heap, ts, vals, Len(hist)>>

\* C11
ViewsAgree == \A i \in 1..Slots : Live(i) => View(heap, ts[i]) = vals[i]
AlwaysValid == \A i \in 1..Slots : Live(i) => Valid(Fmt, vals[i])
ReprOk == \A i \in 1..Slots : /\ (ts[i].k = "inline" => Len(ts[i].b) <= InlineMax)
                              /\ (ts[i].k \in {"owned", "shared"} => heap[ts[i].buf].live)
\* C12
HeapInv == HeapOk(heap, ts)
NothingLeaks == (\A i \in 1..Slots : Free(i)) => \A b \in DOMAIN heap : ~heap[b].live

Export == (DoExport /\ Len(hist) = MaxOps) => PrintT(<<"REPLAY", ToJson([fmt |-> Fmt, slots |-> Slots, ops |-> hist])>>)

MC_RealBytePieces == {<<1, 2, 3, 4, 5>>, <<1, 2, 3, 4, 5, 6, 7, 8, 9>>}
MC_RealUtf8Pieces == {<<97, 98, 99>>, <<195, 169, 195, 169, 195, 169, 195, 169, 195, 169>>, <<195>>}
MC_SmallOffs == 0..6
MC_RealOffs == {0, 1, 5, 8, 9, 10, 17}
MC_BytePieces == {<<1>>, <<1, 2, 3>>}
MC_Utf8Pieces == {<<97>>, <<195, 169>>, <<195>>, <<97, 195, 169, 98>>}
=============================================================================
