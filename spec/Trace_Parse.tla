----------------------------- MODULE Trace_Parse -----------------------------
(***************************************************************************)
(* End-to-end judge (C02, and the tree clauses of C03 / C08 / C10): each   *)
(* record is one real parse with its raw input (possibly fed in chunks, or *)
(* as bytes through a decoder, or under other diagnostic options); the L0  *)
(* parser of HtmlParser - preprocessing, tokenizer, tree construction and  *)
(* their feedback edges - is run on the concatenated input and its tree    *)
(* and quirks mode must be the ones the implementation delivered.          *)
(***************************************************************************)
EXTENDS HtmlParser, TreeCanon, Utf8, TLC, Json, IOUtils

Rec == ndJsonDeserialize(IOEnv.TRACE)
VARIABLES l, memo
\* memo: the L0 result for the previous record's (input, configuration); the chunked / option variants of one input
\* follow each other in a trace and have the same L0 result, which is then computed once
Init == l = 1 /\ memo = [key |-> <<>>, dom |-> <<>>, q |-> "", low |-> FALSE]

RECURSIVE Concat(_, _)
Concat(chunks, i) == IF i > Len(chunks) THEN <<>> ELSE chunks[i] \o Concat(chunks, i + 1)

TokDriven(e) == "tokdriven" \in DOMAIN e.cfg /\ e.cfg.tokdriven

\* input given as bytes (from_utf8 front end, C10): the character stream is the lossy UTF-8 decoding of the
\* concatenated bytes (Unicode: one U+FFFD per maximal ill-formed subsequence)
\* text written by a script while the parser was paused after its end tag (C03): `virtual` is the input with every
\* such string put where the tokenizer stood at that moment - the standard parses exactly that text
RawOf(e) == IF "bytes" \in DOMAIN e THEN Decode(Concat(e.bytes, 1))
            ELSE IF "virtual" \in DOMAIN e THEN e.virtual
            ELSE Concat(e.chunks, 1)
KeyOf(e) == <<RawOf(e), e.cfg.mode, e.cfg.ctx, e.cfg.scripting, e.cfg.srcdoc, e.cfg.iquirks, e.cfg.bom, e.cfg.drop_doctype, e.cfg.form_owner>>

\* the L0 parser's result for a record: [dom, q, low]
L0Result(e) ==
    LET raw == RawOf(e)
        cfg == e.cfg
        t == IF cfg.mode = "frag"
             THEN ParseFragmentFrom(raw, Start(cfg), [ns |-> cfg.ctx.ns, local |-> cfg.ctx.local], cfg.scripting, cfg.bom)
             ELSE ParseDocument(raw, cfg.scripting, cfg.srcdoc, cfg.iquirks, cfg.bom)
        dom0 == CanonD(t.nodes, 0) IN
    [dom |-> IF cfg.drop_doctype THEN DropDoctype(dom0) ELSE dom0, q |-> IF t.qset THEN t.quirks ELSE "no", low |-> t.low]

Verdict(e, r) ==
    IF e.panic # <<>> THEN [why |-> "panic", low |-> FALSE]
    ELSE [why |-> IF r.dom # e.dom THEN "tree" ELSE IF r.q # e.quirks THEN "quirks" ELSE "", low |-> r.low]

Next == /\ l <= Len(Rec)
        /\ l' = l + 1
        /\ LET e == Rec[l] IN
           IF TokDriven(e) THEN UNCHANGED memo          \* a token-driven case has no input text: judged by Trace_Tree only
           ELSE LET k == KeyOf(e)
                    r == IF k = memo.key THEN memo ELSE L0Result(e)
                    v == Verdict(e, r) IN
                /\ memo' = [key |-> k, dom |-> r.dom, q |-> r.q, low |-> r.low]
                /\ \/ v.why = ""
                   \/ (v.why # "" /\ v.low /\ PrintT(<<"UNDECIDED", l, e.case, v.why>>))
                   \/ (v.why # "" /\ ~v.low /\ PrintT(<<"REJECT", l, e.case, v.why>>))

Spec == Init /\ [][Next]_<<l, memo>>
AllConsumed == \/ TLCGet("stats").diameter = Len(Rec) + 1
               \/ PrintT(<<"NOT-CONSUMED", TLCGet("stats").diameter, Len(Rec)>>) /\ FALSE
=============================================================================
