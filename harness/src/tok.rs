//! HTML tokenizer driver with a scripted, recording TokenSink (C01 C03 C04 C08 C09 C14).
//! A case is JSON: {"state","last":[]|[[cp..]],"cdata":bool,"replies":[{"k","name","r"}],
//!   "chunks":[[cp..]..],"exact":bool,"bom":bool,"inject":[[cp..]..]}
//! `inject[i]` is pushed to the front of the input at the i-th Script suspension.
use crate::util::*;
use html5ever::tendril::StrTendril;
use html5ever::tokenizer::states::{self, State};
use html5ever::tokenizer::{
    BufferQueue, Tag, TagKind, Token, TokenSink, TokenSinkResult, Tokenizer, TokenizerOpts,
};
use markup5ever::TokenizerResult;
use serde_json::{json, Value};
use std::cell::{Cell, RefCell};
use std::rc::Rc;

pub fn parse_state(s: &str) -> Option<State> {
    use states::AttrValueKind::*;
    use states::DoctypeIdKind::*;
    use states::RawKind::*;
    use states::ScriptEscapeKind::*;
    let (base, arg) = match s.find('.') {
        Some(i) => (&s[..i], &s[i + 1..]),
        None => (s, ""),
    };
    let raw = |a: &str| match a {
        "Rcdata" => Some(Rcdata),
        "Rawtext" => Some(Rawtext),
        "ScriptData" => Some(ScriptData),
        "Escaped" => Some(ScriptDataEscaped(Escaped)),
        "DoubleEscaped" => Some(ScriptDataEscaped(DoubleEscaped)),
        _ => None,
    };
    let esc = |a: &str| match a {
        "Escaped" => Some(Escaped),
        "DoubleEscaped" => Some(DoubleEscaped),
        _ => None,
    };
    let idk = |a: &str| match a {
        "Public" => Some(Public),
        "System" => Some(System),
        _ => None,
    };
    Some(match base {
        "Data" => State::Data,
        "Plaintext" => State::Plaintext,
        "TagOpen" => State::TagOpen,
        "EndTagOpen" => State::EndTagOpen,
        "TagName" => State::TagName,
        "RawData" => State::RawData(raw(arg)?),
        "RawLt" => State::RawLessThanSign(raw(arg)?),
        "RawEndTagOpen" => State::RawEndTagOpen(raw(arg)?),
        "RawEndTagName" => State::RawEndTagName(raw(arg)?),
        "ScriptDataEscapeStart" => State::ScriptDataEscapeStart(esc(arg)?),
        "ScriptDataEscapeStartDash" => State::ScriptDataEscapeStartDash,
        "ScriptDataEscapedDash" => State::ScriptDataEscapedDash(esc(arg)?),
        "ScriptDataEscapedDashDash" => State::ScriptDataEscapedDashDash(esc(arg)?),
        "ScriptDataDoubleEscapeEnd" => State::ScriptDataDoubleEscapeEnd,
        "BeforeAttributeName" => State::BeforeAttributeName,
        "AttributeName" => State::AttributeName,
        "AfterAttributeName" => State::AfterAttributeName,
        "BeforeAttributeValue" => State::BeforeAttributeValue,
        "AttributeValue" => State::AttributeValue(match arg {
            "Unquoted" => Unquoted,
            "SingleQuoted" => SingleQuoted,
            "DoubleQuoted" => DoubleQuoted,
            _ => return None,
        }),
        "AfterAttributeValueQuoted" => State::AfterAttributeValueQuoted,
        "SelfClosingStartTag" => State::SelfClosingStartTag,
        "BogusComment" => State::BogusComment,
        "MarkupDeclarationOpen" => State::MarkupDeclarationOpen,
        "CommentStart" => State::CommentStart,
        "CommentStartDash" => State::CommentStartDash,
        "Comment" => State::Comment,
        "CommentLessThanSign" => State::CommentLessThanSign,
        "CommentLessThanSignBang" => State::CommentLessThanSignBang,
        "CommentLessThanSignBangDash" => State::CommentLessThanSignBangDash,
        "CommentLessThanSignBangDashDash" => State::CommentLessThanSignBangDashDash,
        "CommentEndDash" => State::CommentEndDash,
        "CommentEnd" => State::CommentEnd,
        "CommentEndBang" => State::CommentEndBang,
        "Doctype" => State::Doctype,
        "BeforeDoctypeName" => State::BeforeDoctypeName,
        "DoctypeName" => State::DoctypeName,
        "AfterDoctypeName" => State::AfterDoctypeName,
        "AfterDoctypeKeyword" => State::AfterDoctypeKeyword(idk(arg)?),
        "BeforeDoctypeIdentifier" => State::BeforeDoctypeIdentifier(idk(arg)?),
        "DoctypeIdentifierDoubleQuoted" => State::DoctypeIdentifierDoubleQuoted(idk(arg)?),
        "DoctypeIdentifierSingleQuoted" => State::DoctypeIdentifierSingleQuoted(idk(arg)?),
        "AfterDoctypeIdentifier" => State::AfterDoctypeIdentifier(idk(arg)?),
        "BetweenDoctypePublicAndSystemIdentifiers" => State::BetweenDoctypePublicAndSystemIdentifiers,
        "BogusDoctype" => State::BogusDoctype,
        "CdataSection" => State::CdataSection,
        "CdataSectionBracket" => State::CdataSectionBracket,
        "CdataSectionEnd" => State::CdataSectionEnd,
        _ => return None,
    })
}

pub const START_STATES: &[&str] = &[
    "Data", "RawData.Rcdata", "RawData.Rawtext", "RawData.ScriptData", "Plaintext", "RawData.Escaped",
    "RawData.DoubleEscaped", "TagName", "TagOpen", "EndTagOpen", "ScriptDataEscapeStart.Escaped",
    "ScriptDataEscapeStartDash", "ScriptDataEscapedDash.Escaped", "ScriptDataEscapedDashDash.Escaped",
    "ScriptDataEscapeStart.DoubleEscaped", "ScriptDataEscapedDash.DoubleEscaped",
    "ScriptDataEscapedDashDash.DoubleEscaped", "ScriptDataDoubleEscapeEnd", "RawLt.Rcdata", "RawLt.Rawtext",
    "RawLt.ScriptData", "RawLt.Escaped", "RawLt.DoubleEscaped", "RawEndTagOpen.Rcdata", "RawEndTagOpen.Rawtext",
    "RawEndTagOpen.ScriptData", "RawEndTagOpen.Escaped", "RawEndTagName.Rcdata", "RawEndTagName.Rawtext",
    "RawEndTagName.ScriptData", "RawEndTagName.Escaped", "BeforeAttributeName", "SelfClosingStartTag",
    "BogusComment", "MarkupDeclarationOpen", "CommentStart", "CommentStartDash", "Comment", "CommentLessThanSign",
    "CommentLessThanSignBang", "CommentLessThanSignBangDash", "CommentLessThanSignBangDashDash", "CommentEndDash",
    "CommentEnd", "CommentEndBang", "Doctype", "BeforeDoctypeName", "DoctypeName", "AfterDoctypeName",
    "AfterDoctypeKeyword.Public", "AfterDoctypeKeyword.System", "BeforeDoctypeIdentifier.Public",
    "BeforeDoctypeIdentifier.System", "DoctypeIdentifierDoubleQuoted.Public", "DoctypeIdentifierDoubleQuoted.System",
    "DoctypeIdentifierSingleQuoted.Public", "DoctypeIdentifierSingleQuoted.System", "AfterDoctypeIdentifier.Public",
    "AfterDoctypeIdentifier.System", "BetweenDoctypePublicAndSystemIdentifiers", "BogusDoctype", "CdataSection",
    "CdataSectionBracket", "CdataSectionEnd",
];

pub struct Reply {
    kind: TagKind,
    name: String,
    r: String,
}

/// One observed token, unmerged, with the line number passed to the sink and the number of
/// input characters consumed from the (harness-owned) queue at that moment.
pub struct Obs {
    pub tok: Value,
    pub line: u64,
    pub cons: usize,
    pub is_err: bool,
    pub err: String,
}

pub struct RecSink {
    pub replies: Vec<Reply>,
    pub cdata: bool,
    pub obs: RefCell<Vec<Obs>>,
    pub queue: Rc<BufferQueue>,
    pub fed: Cell<usize>,
    pub ended: Cell<bool>,
}

fn queue_chars(q: &BufferQueue) -> usize {
    let c = q.clone();
    let mut n = 0;
    while let Some(b) = c.pop_front() {
        n += b.chars().count();
    }
    n
}

fn opt(o: &Option<StrTendril>) -> Value {
    match o {
        None => json!([]),
        Some(s) => json!([cps(s)]),
    }
}

pub fn tag_json(t: &Tag) -> Value {
    json!({
        "k": if t.kind == TagKind::StartTag { "start" } else { "end" },
        "name": cps(&t.name),
        "attrs": t.attrs.iter().map(|a| json!({"n": cps(&a.name.local), "v": cps(&a.value)})).collect::<Vec<_>>(),
        "sc": t.self_closing,
        "dup": t.had_duplicate_attributes,
    })
}

impl TokenSink for RecSink {
    type Handle = ();
    fn process_token(&self, token: Token, line: u64) -> TokenSinkResult<()> {
        let cons = self.fed.get() - queue_chars(&self.queue);
        let mut reply = TokenSinkResult::Continue;
        let mut is_err = false;
        let mut err = String::new();
        let tok = match &token {
            Token::DoctypeToken(d) => json!({"k":"doctype","name":opt(&d.name),"pub":opt(&d.public_id),
                                             "sys":opt(&d.system_id),"fq":d.force_quirks}),
            Token::TagToken(t) => {
                for r in &self.replies {
                    if r.kind == t.kind && *r.name == *t.name {
                        reply = match r.r.as_str() {
                            "rcdata" => TokenSinkResult::RawData(states::RawKind::Rcdata),
                            "rawtext" => TokenSinkResult::RawData(states::RawKind::Rawtext),
                            "script_data" => TokenSinkResult::RawData(states::RawKind::ScriptData),
                            "escaped" => TokenSinkResult::RawData(states::RawKind::ScriptDataEscaped(
                                states::ScriptEscapeKind::Escaped,
                            )),
                            "double_escaped" => TokenSinkResult::RawData(states::RawKind::ScriptDataEscaped(
                                states::ScriptEscapeKind::DoubleEscaped,
                            )),
                            "plaintext" => TokenSinkResult::Plaintext,
                            "script" => TokenSinkResult::Script(()),
                            _ => TokenSinkResult::Continue,
                        };
                        break;
                    }
                }
                tag_json(t)
            },
            Token::CommentToken(c) => json!({"k":"comment","s":cps(c)}),
            Token::CharacterTokens(s) => json!({"k":"chars","s":cps(s)}),
            Token::NullCharacterToken => json!({"k":"nul"}),
            Token::EOFToken => json!({"k":"eof"}),
            Token::ParseError(e) => {
                is_err = true;
                err = e.to_string();
                json!({"k":"err"})
            },
        };
        self.obs.borrow_mut().push(Obs { tok, line, cons, is_err, err });
        reply
    }
    fn end(&self) {
        self.ended.set(true);
    }
    fn adjusted_current_node_present_but_not_in_html_namespace(&self) -> bool {
        self.cdata
    }
}

/// merge adjacent character tokens, drop errors
pub fn merged(obs: &[Obs]) -> Vec<Value> {
    let mut out: Vec<Value> = Vec::new();
    for o in obs {
        if o.is_err {
            continue;
        }
        if o.tok["k"] == "chars" {
            if o.tok["s"].as_array().map(|a| a.is_empty()).unwrap_or(false) {
                continue; // an empty character token carries no character data
            }
            if let Some(last) = out.last_mut() {
                if last["k"] == "chars" {
                    let add = o.tok["s"].as_array().unwrap().clone();
                    last["s"].as_array_mut().unwrap().extend(add);
                    continue;
                }
            }
        }
        out.push(o.tok.clone());
    }
    out
}

pub struct RunResult {
    pub obs: Vec<Obs>,
    pub feeds: Vec<Value>,
    pub ended: bool,
    pub panic: Option<String>,
}

/// Record the case about to run next to the trace file, so that a crash of this process can be
/// attributed to it by the orchestrator.
pub fn note_current(case: &Value) {
    if let Ok(p) = std::env::var("VH_OUT") {
        if !p.is_empty() {
            let _ = std::fs::write(format!("{}.current", p), serde_json::to_string(case).unwrap_or_default());
        }
    }
}

pub fn run_tok(case: &Value) -> RunResult {
    if std::env::var("VH_NOTE").is_ok() {
        note_current(case);
    }
    let state = case["state"].as_str().unwrap_or("Data");
    let last = case["last"].as_array().and_then(|a| a.first()).map(from_cps);
    let rs_val = if case["rs"] == "std" { crate::tokgen::std_replies() } else { case.get("replies").cloned().unwrap_or(json!([])) };
    let replies: Vec<Reply> = rs_val
        .as_array()
        .map(|a| {
            a.iter()
                .map(|r| Reply {
                    kind: if r["k"] == "end" { TagKind::EndTag } else { TagKind::StartTag },
                    name: from_cps(&r["name"]),
                    r: r["r"].as_str().unwrap_or("continue").to_string(),
                })
                .collect()
        })
        .unwrap_or_default();
    let chunks: Vec<String> = case["chunks"].as_array().unwrap().iter().map(from_cps).collect();
    let inject: Vec<String> = case["inject"].as_array().map(|a| a.iter().map(from_cps).collect()).unwrap_or_default();
    let opts = TokenizerOpts {
        exact_errors: case["exact"].as_bool().unwrap_or(false),
        discard_bom: case["bom"].as_bool().unwrap_or(false),
        profile: case["profile"].as_bool().unwrap_or(false),
        initial_state: Some(parse_state(state).expect("bad state name")),
        last_start_tag_name: last,
    };
    let queue = Rc::new(BufferQueue::default());
    let sink = RecSink {
        replies,
        cdata: case["cdata"].as_bool().unwrap_or(false),
        obs: RefCell::new(Vec::new()),
        queue: queue.clone(),
        fed: Cell::new(0),
        ended: Cell::new(false),
    };
    let tok = Tokenizer::new(sink, opts);
    let mut feeds = Vec::new();
    let r = catch(|| {
        let mut nscript = 0usize;
        for ch in &chunks {
            tok.sink.fed.set(tok.sink.fed.get() + ch.chars().count());
            queue.push_back(StrTendril::from_slice(ch));
            loop {
                let res = tok.feed(&queue);
                match res {
                    TokenizerResult::Done => {
                        feeds.push(json!({"ret":"done","empty":queue.is_empty()}));
                        break;
                    },
                    TokenizerResult::Script(_) => {
                        feeds.push(json!({"ret":"script","empty":queue.is_empty()}));
                        if let Some(t) = inject.get(nscript) {
                            tok.sink.fed.set(tok.sink.fed.get() + t.chars().count());
                            queue.push_front(StrTendril::from_slice(t));
                        }
                        nscript += 1;
                    },
                    TokenizerResult::EncodingIndicator(_) => {
                        feeds.push(json!({"ret":"enc","empty":queue.is_empty()}));
                    },
                }
            }
        }
        tok.end();
    });
    let ended = tok.sink.ended.get();
    let obs = tok.sink.obs.replace(Vec::new());
    RunResult { obs, feeds, ended, panic: r.err() }
}

pub fn case_line(case: &Value, id: u64, rr: &RunResult, fields: &str) -> Value {
    let mut o = json!({"ev":"case","case":id,
        "cfg":{"state":case["state"],"last":case["last"],"cdata":case["cdata"],"rs":case["rs"]},
        "chunks":case["chunks"], "exact": case["exact"], "bom": case["bom"], "profile": case.get("profile").cloned().unwrap_or(json!(false)), "inject": case.get("inject").cloned().unwrap_or(json!([])),
        "toks": merged(&rr.obs),
        "panic": match &rr.panic { Some(m) => json!([cps(m)]), None => json!([]) }});
    if fields.contains("raw") {
        // unmerged tokens with line and consumed count (C09), errors included as {"k":"err"}
        o["raw"] = Value::Array(
            rr.obs.iter().map(|x| json!({"k": x.tok["k"], "line": x.line, "cons": x.cons})).collect(),
        );
    }
    if fields.contains("errs") {
        // (index among non-error tokens so far, message) of every parse error
        let mut v = Vec::new();
        let mut n = 0usize;
        for x in &rr.obs {
            if x.is_err {
                v.push(json!({"i": n, "m": cps(&x.err)}));
            } else {
                n += 1;
            }
        }
        o["errs"] = Value::Array(v);
    }
    if fields.contains("sched") {
        o["view"] = sched_view(rr);
    }
    if fields.contains("feeds") {
        o["feeds"] = Value::Array(rr.feeds.clone());
        o["ended"] = json!(rr.ended);
        o["neof"] = json!(rr.obs.iter().filter(|x| x.tok["k"] == "eof").count());
        o["eoflast"] = json!(rr.obs.iter().rev().find(|x| !x.is_err).map(|x| x.tok["k"] == "eof").unwrap_or(false));
    }
    o
}

/// Schedule-independent view of a run (C03/C08): non-character tokens with their line, each
/// maximal group of character tokens as (text, line of its last token), and parse errors as
/// (number of non-character tokens before, number of characters delivered before, message).
pub fn sched_view(rr: &RunResult) -> Value {
    let mut seq: Vec<Value> = Vec::new();
    let mut errs: Vec<Value> = Vec::new();
    let mut nonchar = 0usize;
    let mut nchars = 0usize;
    for o in &rr.obs {
        if o.is_err {
            errs.push(json!({"n": nonchar, "c": nchars, "m": cps(&o.err)}));
            continue;
        }
        let k = o.tok["k"].as_str().unwrap();
        if k == "chars" {
            let a = o.tok["s"].as_array().unwrap();
            if a.is_empty() {
                continue;
            }
            nchars += a.len();
            if let Some(last) = seq.last_mut() {
                if last["k"] == "chars" {
                    last["s"].as_array_mut().unwrap().extend(a.clone());
                    last["line"] = json!(o.line);
                    continue;
                }
            }
            seq.push(json!({"k":"chars","s":a,"line":o.line}));
        } else {
            if k == "nul" {
                nchars += 1;
            } else {
                nonchar += 1;
            }
            let mut t = o.tok.clone();
            t["line"] = json!(o.line);
            seq.push(t);
        }
    }
    json!({"seq": seq, "errs": errs})
}

pub fn default_case(state: &str, text: &str) -> Value {
    json!({"state":state,"last":[],"cdata":false,"rs":"none","chunks":[cps(text)],"exact":false,"bom":false,"inject":[]})
}

pub fn main(args: &Args) {
    let mut out = Out::new();
    let fields = args.get("fields").unwrap_or("").to_string();
    if args.has("replay") {
        let mut id = 0;
        for c in read_cases().iter() {
            id += 1;
            // accept both bare cases and recorded case lines
            let case = if c.get("cfg").is_some() {
                json!({"state":c["cfg"]["state"],"last":c["cfg"]["last"],"cdata":c["cfg"]["cdata"],"rs":c["cfg"]["rs"],
                       "chunks":c["chunks"],"exact":c["exact"],"bom":c["bom"],"profile":c.get("profile").cloned().unwrap_or(json!(false)),"inject":c["inject"]})
            } else {
                c.clone()
            };
            let rr = run_tok(&case);
            let mut l = case_line(&case, id, &rr, &fields);
            if c.get("group").is_some() {
                l["ev"] = c["ev"].clone();
                l["group"] = c["group"].clone();
            }
            out.line(&l);
        }
    } else {
        crate::tokgen::generate(args, &fields, &mut out);
    }
    out.flush();
}
