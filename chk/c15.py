"""C15 - XML5 parse result is independent of chunking and diagnostic options."""
import os
from . import core
from .core import Run, WORK

RULE = ("For each document (all strings of <= 3/4 pieces over an alphabet rich in CR, LF, NUL, U+FEFF, character references, "
        "attribute quotes, DOCTYPE keywords, comments, PIs, CDATA; random XML-ish text) the real xml5ever is run in one piece "
        "with exact_errors (reference), under all/various chunkings x {exact_errors, profile}, on the source with CR/CRLF->LF "
        "and NUL->U+FFFD applied, and with U+FEFF prepended; TLC judges the statement's relations between these runs: "
        "R1 same tree and token stream (minus errors) under every chunking/option set, R2 same tree for the normalised "
        "source (TLC checks the harness normalised it as specified), R3 leading U+FEFF dropped and nothing else changed.  "
        "MC_XmlInput checks the implementation-shaped input layer model against uniform preprocessing.")
SPEC, CFG = "Trace_XmlSched.tla", "Trace_XmlSched.cfg"


def classify(f, objs):
    return False


def count_groups(path):
    n = 0
    with open(path) as f:
        for l in f:
            if '"ev":"var"' in l or '"ev":"norm"' in l or '"ev":"bomrun"' in l:
                n += 1
    return n


def run(tier, seed, replay=None):
    r = Run("C15", tier, seed)
    core.build_harness()
    if replay:
        meta, lines = core.load_replay(replay)
        import json
        refs = [json.loads(l) for l in lines if '"ev":"ref"' in l]
        src = os.path.join(WORK, "traces", "C15-replay-in.ndjson")
        with open(src, "w") as f:
            for o in refs:
                f.write(json.dumps({"text": o["input"]}) + "\n")
        r.gen_validate("replay", ["xml", "--mode", "sched", "--replay", "--chunk", "all"], SPEC, CFG, 1, classify, count_groups, stdin_files=[src])
        return r.finish(RULE, write=False)
    q = tier == "quick"
    N = core.NCPU
    res = core.tlc_mc("C15-mc", "MC_XmlInput.tla", "MC_XmlInput.cfg" if q else "MC_XmlInput_thorough.cfg", timeout=5000, xmx="16g")
    r.add_mc("MC_XmlInput", res)
    r.gen_validate("enum-k3", ["xml", "--mode", "sched", "--gen", "enum", "--k", 3, "--chunk", "some"], SPEC, CFG, N, classify, count_groups,
                   timeout=5000)
    r.gen_validate("enum-k2-allchunk", ["xml", "--mode", "sched", "--gen", "enum", "--k", 2, "--chunk", "all"], SPEC, CFG, N, classify,
                   count_groups, timeout=5000)
    r.gen_validate("random", ["xml", "--mode", "sched", "--n", 300 if q else 6000, "--chunk", "some"], SPEC, CFG, N, classify, count_groups,
                   timeout=5000)
    if not q:
        r.gen_validate("enum-k4", ["xml", "--mode", "sched", "--gen", "enum", "--k", 4, "--chunk", "some"], SPEC, CFG, N * 4, classify,
                       count_groups, timeout=8000, xmx="4g")
    r.assumptions = ["the judges are relations between runs of the same build; what XML5 tokenization *should* produce is not judged here",
                     "chunk boundaries fall on character boundaries (StrTendril chunks)"]
    return r.finish(RULE)
