"""C13 - BufferQueue behaves as one flat character stream."""
import os
from . import core
from .core import Run, WORK

RULE = ("spec->impl: every transition (pre-state, operation) of the complete bounded state graph of "
        "MC_BufferQueue is replayed on the real queue; impl->spec: seeded random call histories "
        "(patterns derived from the live content).  Each call's return value and full remaining "
        "content is judged by TLC against the L0 flat-string specification (Trace_BufferQueue).")


def classify(f, objs):
    return False


def run(tier, seed, replay=None):
    r = Run("C13", tier, seed)
    core.build_harness()
    if replay:
        meta, lines = core.load_replay(replay)
        src = os.path.join(WORK, "traces", "C13-replay-in.ndjson")
        with open(src, "w") as f:
            f.write("\n".join(lines) + "\n")
        r.gen_validate("replay", ["bq", "--replay"], "Trace_BufferQueue.tla", "Trace_BufferQueue.cfg", 1, classify,
                       core.count_resets, stdin_files=[src])
        return r.finish(RULE, write=False)
    cfg = "MC_BufferQueue.cfg" if tier == "quick" else "MC_BufferQueue_thorough.cfg"
    cases = os.path.join(WORK, "traces", "C13-mc-cases.ndjson")
    res = core.tlc_mc("C13-mc", "MC_BufferQueue.tla", cfg, replay_out=cases, timeout=3000, coverage=True)
    r.add_mc(cfg, res)
    if res["ok"]:
        parts, n = core.split_file(cases, core.NCPU)
        r.gen_validate("mc-transitions", ["bq", "--replay"], "Trace_BufferQueue.tla", "Trace_BufferQueue.cfg",
                       len(parts), classify, core.count_resets, stdin_files=parts)
        r.extra["mc_transitions_replayed"] = n
    n = 400 if tier == "quick" else 4000
    r.gen_validate("random", ["bq", "--n", n, "--ops", 60], "Trace_BufferQueue.tla", "Trace_BufferQueue.cfg",
                   core.NCPU, classify, core.count_resets)
    r.assumptions = ["eat() is exercised with non-empty patterns and the two comparison functions the tokenizers use "
                     "(byte equality, ASCII case-insensitive equality)",
                     "pop_except_from sets are subsets of code points below 64 (the SmallCharSet domain)"]
    return r.finish(RULE, exhaustive=False)
