SPECIFICATION Spec
CONSTANTS
  MaxNodes = 5
  MaxOps = 7
  DoExport = TRUE
INVARIANTS Consistent Acyclic AtMostOneParent Export
VIEW View
CHECK_DEADLOCK FALSE
