SPECIFICATION Spec
CONSTANTS
  MaxPieces = 4
  DoExport = TRUE
INVARIANTS LabelIsSubstring NothingWithoutCharsetEq Export
CHECK_DEADLOCK FALSE
