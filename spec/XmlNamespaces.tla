---------------------------- MODULE XmlNamespaces ----------------------------
(***************************************************************************)
(* L0: Namespaces in XML -- lexical scoping of xmlns declarations over the *)
(* element tree.  A tag is [k, prefix (<<>> or <<p>>), local, attrs], an   *)
(* attribute [prefix, local, v].  Declarations are the attributes `xmlns`  *)
(* and `xmlns:p`; they are not ordinary attributes (Infoset [namespace     *)
(* attributes]).  URIs and names are code-point sequences.                 *)
(***************************************************************************)
EXTENDS Chars, Integers

XML_URI == <<104, 116, 116, 112, 58, 47, 47, 119, 119, 119, 46, 119, 51, 46, 111, 114, 103, 47, 88, 77, 76, 47, 49, 57, 57, 56, 47, 110, 97, 109, 101, 115, 112, 97, 99, 101>>
XMLNS_URI == <<104, 116, 116, 112, 58, 47, 47, 119, 119, 119, 46, 119, 51, 46, 111, 114, 103, 47, 50, 48, 48, 48, 47, 120, 109, 108, 110, 115, 47>>
S_xml == <<120, 109, 108>>
S_xmlns == <<120, 109, 108, 110, 115>>

IsDecl(a) == a.prefix = <<S_xmlns>> \/ (a.prefix = <<>> /\ a.local = S_xmlns)
\* the key a declaration binds: <<>> = the default namespace, <<p>> = prefix p
DeclKey(a) == IF a.prefix = <<>> THEN <<>> ELSE <<a.local>>

\* a declaration that has no effect: the reserved prefixes cannot be (re)bound, and no prefix
\* can be bound to the xmlns namespace name
Ineffective(a) == \/ a.v = XMLNS_URI
                  \/ (a.prefix = <<S_xmlns>> /\ a.local = S_xmlns)
                  \/ (a.prefix = <<S_xmlns>> /\ a.local = S_xml)

\* declarations of one tag as a sequence of [key, uri]; uri = <<>> un-binds.  When the same key
\* is declared twice on one tag the first one stands (the second is a duplicate attribute).
RECURSIVE DeclsFrom(_, _, _)
DeclsFrom(attrs, i, acc) ==
    IF i > Len(attrs) THEN acc
    ELSE LET a == attrs[i] IN
         IF IsDecl(a) /\ ~Ineffective(a) /\ ~(\E j \in DOMAIN acc : acc[j].key = DeclKey(a))
         THEN DeclsFrom(attrs, i + 1, Append(acc, [key |-> DeclKey(a), uri |-> a.v]))
         ELSE DeclsFrom(attrs, i + 1, acc)
DeclsOf(attrs) == DeclsFrom(attrs, 1, <<>>)

\* look a key up in one tag's declarations: <<>> = not declared here, <<uri>> = declared (uri may be empty)
LookupDecl(decls, key) == LET idx == {j \in DOMAIN decls : decls[j].key = key} IN
                          IF idx = {} THEN <<>> ELSE <<decls[CHOOSE j \in idx : TRUE].uri>>

\* chain: declarations of the element itself first, then of each ancestor outwards.
\* Result: the namespace URI bound to the key (<<>> = none).
RECURSIVE ResolveIn(_, _, _)
ResolveIn(chain, i, key) ==
    IF i > Len(chain) THEN <<>>
    ELSE LET d == LookupDecl(chain[i], key) IN IF d # <<>> THEN d[1] ELSE ResolveIn(chain, i + 1, key)

ResolvePrefix(chain, prefix) ==          \* prefix = <<>> (none) or <<p>>
    IF prefix = <<S_xml>> THEN XML_URI
    ELSE IF prefix = <<S_xmlns>> THEN XMLNS_URI
    ELSE ResolveIn(chain, 1, prefix)

\* element names: the default namespace applies to unprefixed names
ElementNs(chain, prefix) == ResolvePrefix(chain, prefix)
\* attribute names: unprefixed attributes are in no namespace
AttrNs(chain, prefix) == IF prefix = <<>> THEN <<>> ELSE ResolvePrefix(chain, prefix)

\* ordinary (non-declaration) attributes of a tag with their expanded names, in source order
RECURSIVE PlainFrom(_, _, _, _)
PlainFrom(attrs, chain, i, acc) ==
    IF i > Len(attrs) THEN acc
    ELSE LET a == attrs[i] IN
         IF IsDecl(a) THEN PlainFrom(attrs, chain, i + 1, acc)
         ELSE PlainFrom(attrs, chain, i + 1, Append(acc, [nsu |-> AttrNs(chain, a.prefix), prefix |-> a.prefix, local |-> a.local, v |-> a.v]))
PlainAttrs(attrs, chain) == PlainFrom(attrs, chain, 1, <<>>)

\* attributes that must survive: those whose expanded name differs from every earlier one
MustKeep(plain) == {i \in DOMAIN plain : ~\E j \in 1..(i - 1) : plain[j].nsu = plain[i].nsu /\ plain[j].local = plain[i].local}

\* `got` (the element's attributes as created) is an order-preserving selection of `plain`
\* that contains every must-keep attribute
RECURSIVE Embeds(_, _, _, _, _)
Embeds(plain, got, i, j, keep) ==
    IF j > Len(got) THEN \A k \in keep : k < i
    ELSE IF i > Len(plain) THEN FALSE
    ELSE IF plain[i] = got[j] THEN Embeds(plain, got, i + 1, j + 1, keep)
    ELSE IF i \in keep THEN FALSE
    ELSE Embeds(plain, got, i + 1, j, keep)
AttrsOk(plain, got) == Embeds(plain, got, 1, 1, MustKeep(plain))
=============================================================================
