//! C20: apply TreeSink operation sequences directly to RcDom (through the monitoring sink, so the
//! trace has the same shape as a parse trace).  `--replay`: sequences exported by TLC (MC_Dom);
//! otherwise seeded random contract-abiding sequences.
use crate::parse::*;
use crate::util::*;
use html5ever::tendril::StrTendril;
use html5ever::tree_builder::{create_element, NodeOrText, TreeSink};
use html5ever::{Attribute, LocalName, QualName};
use serde_json::{json, Value};
use std::collections::HashMap;

fn mk_attrs(v: &Value) -> Vec<Attribute> {
    v.as_array()
        .map(|a| {
            a.iter()
                .map(|x| Attribute {
                    name: QualName::new(None, ns_from_tag(x["ns"].as_str().unwrap_or("")), LocalName::from(&*from_cps(&x["local"]))),
                    value: StrTendril::from_slice(&from_cps(&x["v"])),
                })
                .collect()
        })
        .unwrap_or_default()
}

pub struct Applier {
    pub sink: MonSink,
    pub h: Vec<MonHandle>,
}
impl Applier {
    pub fn new() -> Applier {
        let sink = MonSink::new(false);
        let doc = sink.get_document();
        Applier { sink, h: vec![doc] }
    }
    fn child(&self, op: &Value) -> NodeOrText<MonHandle> {
        if op["k"] == "node" {
            NodeOrText::AppendNode(self.h[op["child"].as_u64().unwrap() as usize].clone())
        } else {
            NodeOrText::AppendText(StrTendril::from_slice(&from_cps(&op["text"])))
        }
    }
    pub fn apply(&mut self, op: &Value) {
        let id = |k: &str| op[k].as_u64().unwrap() as usize;
        match op["ev"].as_str().unwrap() {
            "create_element" => {
                let name = QualName::new(None, ns_from_tag(op["ns"].as_str().unwrap()), LocalName::from(&*from_cps(&op["local"])));
                let h = create_element(&self.sink, name, mk_attrs(&op["attrs"]));
                self.h.push(h);
            },
            "create_comment" => {
                let h = self.sink.create_comment(StrTendril::from_slice(&from_cps(&op["text"])));
                self.h.push(h);
            },
            "append" => {
                let c = self.child(op);
                self.sink.append(&self.h[id("parent")].clone(), c)
            },
            "append_before_sibling" => {
                let c = self.child(op);
                self.sink.append_before_sibling(&self.h[id("sibling")].clone(), c)
            },
            "append_based_on_parent_node" => {
                let c = self.child(op);
                self.sink.append_based_on_parent_node(&self.h[id("element")].clone(), &self.h[id("prev")].clone(), c)
            },
            "remove_from_parent" => self.sink.remove_from_parent(&self.h[id("target")].clone()),
            "reparent_children" => self.sink.reparent_children(&self.h[id("node")].clone(), &self.h[id("new_parent")].clone()),
            "add_attrs_if_missing" => self.sink.add_attrs_if_missing(&self.h[id("target")].clone(), mk_attrs(&op["attrs"])),
            "get_template_contents" => {
                let r = self.sink.get_template_contents(&self.h[id("target")].clone());
                if r.id == self.h.len() {
                    self.h.push(r);
                }
            },
            "maybe_clone_option" => self.sink.maybe_clone_an_option_into_selectedcontent(&self.h[id("option")].clone()),
            "append_doctype" => self.sink.append_doctype_to_document(
                StrTendril::from_slice(&from_cps(&op["name"])),
                StrTendril::from_slice(&from_cps(&op["pub"])),
                StrTendril::from_slice(&from_cps(&op["sys"])),
            ),
            _ => {},
        }
    }
}

fn run_ops(ops: &[Value], id: u64, out: &mut Out) {
    let mut ap = Applier::new();
    let r = catch(|| {
        for op in ops {
            ap.apply(op);
        }
    });
    out.line(&json!({"ev":"reset","case":id,"cfg":{"mode":"ops"},"ops":ops}));
    for mut e in ap.sink.log.replace(Vec::new()) {
        e["case"] = json!(id);
        out.line(&e);
    }
    let ok = r.is_ok();
    out.line(&json!({"ev":"tree","case":id,"dom": if ok { dump(&ap.sink.inner.document) } else { json!({"k":"none"}) },
        "quirks":"no","parents_ok": if ok { parents_consistent(&ap.sink.inner.document) } else { true },
        "panic": match r { Err(m) => json!([cps(&m)]), Ok(_) => json!([]) }, "neof": 1,
        "ser": if ok { crate::parse::ser_events(&ap.sink.inner.document) } else { json!([]) }}));
}

/// bookkeeping mirror used only to *generate* contract-abiding operations
struct Shadow {
    kind: Vec<&'static str>, // doc el tmpl comment frag
    parent: Vec<i64>,
    host: Vec<i64>,
    nch: Vec<usize>,
    tmpl: HashMap<usize, usize>,
    names: Vec<&'static str>,
}
impl Shadow {
    fn incl_anc(&self, a: usize, mut x: usize) -> bool {
        loop {
            if x == a {
                return true;
            }
            if self.parent[x] >= 0 {
                x = self.parent[x] as usize;
            } else if self.host[x] >= 0 {
                x = self.host[x] as usize;
            } else {
                return false;
            }
        }
    }
}

fn gen_ops(r: &mut Rng, nops: usize) -> Vec<Value> {
    let mut s = Shadow { kind: vec!["doc"], parent: vec![-1], host: vec![-1], nch: vec![0], tmpl: HashMap::new(), names: vec![""] };
    let mut ops = Vec::new();
    if r.chance(1, 3) {
        // scaffold: select > (wrapper >)* selectedcontent, option[selected] > children, then clone
        let mk = |ops: &mut Vec<Value>, s: &mut Shadow, nm: &'static str, attr: Option<&str>, parent: Option<usize>| -> usize {
            let id = s.kind.len();
            let attrs: Vec<Value> = attr.iter().map(|a| json!({"ns":"","prefix":[],"local":cps(a),"v":cps("")})).collect();
            ops.push(json!({"ev":"create_element","id":id,"ns":"html","local":cps(nm),"prefix":[],"attrs":attrs,"template":false,"ip":false,"dup":false}));
            s.kind.push("el");
            s.names.push(nm);
            s.parent.push(-1);
            s.host.push(-1);
            s.nch.push(0);
            if let Some(p) = parent {
                ops.push(json!({"ev":"append","parent":p,"k":"node","child":id,"text":[]}));
                s.parent[id] = p as i64;
            }
            id
        };
        let root = mk(&mut ops, &mut s, "div", None, Some(0));
        let sel = mk(&mut ops, &mut s, "select", if r.chance(1, 6) { Some("multiple") } else { None }, Some(root));
        // two candidate selectedcontent elements at different depths/orders
        let w1 = mk(&mut ops, &mut s, *r.pick(&["button", "div", "optgroup"]), None, Some(sel));
        let deep = if r.chance(1, 2) { mk(&mut ops, &mut s, "span", None, Some(w1)) } else { w1 };
        let _sc1 = mk(&mut ops, &mut s, "selectedcontent", None, Some(deep));
        if r.chance(1, 2) {
            let _sc2 = mk(&mut ops, &mut s, "selectedcontent", None, Some(sel));
        }
        let og = if r.chance(1, 3) { mk(&mut ops, &mut s, "optgroup", None, Some(sel)) } else { sel };
        let opt = mk(&mut ops, &mut s, "option", if r.chance(4, 5) { Some("selected") } else { None }, Some(og));
        let c1 = mk(&mut ops, &mut s, "b", Some("id"), Some(opt));
        ops.push(json!({"ev":"append","parent":c1,"k":"text","child":0,"text":cps("t")}));
        let _c2 = mk(&mut ops, &mut s, "i", None, Some(c1));
        ops.push(json!({"ev":"append","parent":opt,"k":"text","child":0,"text":cps("u")}));
        ops.push(json!({"ev":"maybe_clone_option","option":opt}));
    }
    let names = ["div", "option", "b", "template", "select", "option", "selectedcontent", "selectedcontent", "optgroup", "select"];
    let texts = ["a", "", "xy", " ", "\n"];
    for _ in 0..nops {
        let n = s.kind.len();
        let pick = |r: &mut Rng| r.below(n);
        match r.below(12) {
            0 | 1 | 2 => {
                let nm = *r.pick(&names);
                let mut attrs = vec![];
                if r.chance(1, 2) {
                    attrs.push(json!({"ns":"","prefix":[],"local":cps(*r.pick(&["id", "selected", "multiple", "class"])),"v":cps("1")}));
                }
                ops.push(json!({"ev":"create_element","id":n,"ns":"html","local":cps(nm),"prefix":[],"attrs":attrs,"template":nm=="template","ip":false,"dup":false}));
                s.kind.push(if nm == "template" { "tmpl" } else { "el" });
                s.names.push(nm);
                s.parent.push(-1);
                s.host.push(-1);
                s.nch.push(0);
            },
            3 => {
                ops.push(json!({"ev":"create_comment","id":n,"text":cps("c")}));
                s.kind.push("comment");
                s.names.push("");
                s.parent.push(-1);
                s.host.push(-1);
                s.nch.push(0);
            },
            4 | 5 => {
                let p = pick(r);
                let c = pick(r);
                let can_parent = matches!(s.kind[p], "doc" | "el" | "tmpl" | "frag");
                if can_parent && c != 0 && s.kind[c] != "frag" && s.parent[c] < 0 && !s.incl_anc(c, p) {
                    ops.push(json!({"ev":"append","parent":p,"k":"node","child":c,"text":[]}));
                    s.parent[c] = p as i64;
                    s.nch[p] += 1;
                }
            },
            6 => {
                let p = pick(r);
                if p != 0 && matches!(s.kind[p], "el" | "tmpl" | "frag") {
                    ops.push(json!({"ev":"append","parent":p,"k":"text","child":0,"text":cps(*r.pick(&texts))}));
                    s.nch[p] += 1;
                }
            },
            7 => {
                let sib = pick(r);
                let c = pick(r);
                if sib != 0 && c != 0 && c != sib && s.kind[c] != "frag" && s.parent[sib] >= 0 && !s.incl_anc(c, s.parent[sib] as usize) {
                    ops.push(json!({"ev":"append_before_sibling","sibling":sib,"k":"node","child":c,"text":[]}));
                    s.parent[c] = s.parent[sib];
                }
            },
            8 => {
                let sib = pick(r);
                if sib != 0 && s.parent[sib] > 0 {
                    ops.push(json!({"ev":"append_before_sibling","sibling":sib,"k":"text","child":0,"text":cps(*r.pick(&texts))}));
                }
            },
            9 => {
                let c = pick(r);
                if c != 0 && s.kind[c] != "frag" {
                    ops.push(json!({"ev":"remove_from_parent","target":c}));
                    s.parent[c] = -1;
                }
            },
            10 => {
                let a = pick(r);
                let b = pick(r);
                let cp = |k: &str| matches!(k, "el" | "tmpl" | "frag");
                if a != b && a != 0 && b != 0 && cp(s.kind[a]) && cp(s.kind[b]) && !s.incl_anc(a, b) {
                    ops.push(json!({"ev":"reparent_children","node":a,"new_parent":b}));
                    for x in 0..n {
                        if s.parent[x] == a as i64 {
                            s.parent[x] = b as i64;
                        }
                    }
                }
            },
            _ => {
                let t = pick(r);
                if s.kind[t] == "tmpl" {
                    let ret = *s.tmpl.get(&t).unwrap_or(&n);
                    ops.push(json!({"ev":"get_template_contents","target":t,"ret":ret}));
                    if ret == n {
                        s.tmpl.insert(t, n);
                        s.kind.push("frag");
                        s.names.push("");
                        s.parent.push(-1);
                        s.host.push(t as i64);
                        s.nch.push(0);
                    }
                } else if s.kind[t] == "el" && s.names[t] == "option" && r.chance(2, 3) {
                    ops.push(json!({"ev":"maybe_clone_option","option":t}));
                } else if matches!(s.kind[t], "el" | "tmpl") {
                    ops.push(json!({"ev":"add_attrs_if_missing","target":t,"attrs":[
                        {"ns":"","prefix":[],"local":cps("id"),"v":cps("2")},{"ns":"","prefix":[],"local":cps("title"),"v":cps("t")}]}));
                }
            },
        }
    }
    ops
}

pub fn main(args: &Args) {
    let mut out = Out::new();
    let mut id = 0u64;
    if args.has("replay") {
        for c in read_cases() {
            let ops: Vec<Value> = if c.get("ops").is_some() { c["ops"].as_array().unwrap().clone() } else { continue };
            id += 1;
            run_ops(&ops, id, &mut out);
        }
    } else {
        let mut r = Rng::new(args.num("seed", 1));
        for _ in 0..args.num("n", 100) {
            let n = 5 + r.below(40);
            let ops = gen_ops(&mut r, n);
            id += 1;
            run_ops(&ops, id, &mut out);
        }
    }
    out.flush();
}
