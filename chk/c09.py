"""C09 - line numbers reported with tokens match the source."""
import os
from . import core
from .core import Run, WORK

RULE = ("Real tokenizer runs with a recording sink that logs, for every token (unmerged, parse errors included), the line "
        "number passed to the sink and the number of input characters consumed from the harness-owned queue; inputs: "
        "piece strings rich in CR/LF/CRLF from every start state and after deep-state prefixes under ALL chunkings "
        "(short) or every single cut + all-1-char + random cuts (long), and random Unicode strings.  TLC judges each "
        "token: line = 1 + Breaks(raw[1..consumed]) (Preprocess!Breaks: LF, CR, CRLF once); EOF must have consumed "
        "the whole input.")
SPEC, CFG = "Trace_Lines.tla", "Trace_Lines.cfg"


def classify(f, objs):
    return False


def run(tier, seed, replay=None):
    r = Run("C09", tier, seed)
    core.build_harness()
    if replay:
        meta, lines = core.load_replay(replay)
        src = os.path.join(WORK, "traces", "C09-replay-in.ndjson")
        with open(src, "w") as f:
            f.write("\n".join(lines) + "\n")
        if meta.get("sub") == "parse":
            r.gen_validate("replay", ["parse", "--replay"], "Trace_Sink.tla", "Trace_Sink.cfg", 1, classify, core.count_resets, stdin_files=[src],
                           env={"PROP": "C09"})
            return r.finish(RULE, write=False)
        r.gen_validate("replay", ["tok", "--replay", "--fields", "raw"], SPEC, CFG, 1, classify, core.count_lines, stdin_files=[src])
        return r.finish(RULE, write=False)
    quick = tier == "quick"
    N = core.NCPU
    # the line-counting model is part of the tokenizer input-layer model; its bounded check lives in MC_TokInput (C03)
    res = core.tlc_mc("C09-mc", "MC_Lines.tla", "MC_Lines.cfg" if quick else "MC_Lines_thorough.cfg", timeout=3000)
    r.add_mc("MC_Lines", res)
    F = ["--fields", "raw"]
    r.gen_validate("enum-lines-k2-allchunk", ["tok", "--mode", "enum", "--pset", "lines", "--k", 2, "--chunk", "all"] + F,
                   SPEC, CFG, N, classify, core.count_lines, timeout=3000)
    r.gen_validate("prefixed-lines-k2", ["tok", "--mode", "prefixed", "--pset", "lines", "--k", 2, "--chunk", "some"] + F,
                   SPEC, CFG, N, classify, core.count_lines, timeout=3000)
    r.gen_validate("stride", ["tok", "--mode", "stride", "--chunk", "some"] + F, SPEC, CFG, 4, classify, core.count_lines)
    r.gen_validate("random", ["tok", "--mode", "random", "--n", 600 if quick else 6000, "--maxlen", 60, "--chunk", "some"] + F,
                   SPEC, CFG, N, classify, core.count_lines, timeout=3000)
    # forwarding clause: in real parses the tree builder hands the sink (set_current_line) exactly the number it received with
    # the token, before any other sink call made for that token (Trace_Sink, PROP=C09)
    TS = dict(env={"PROP": "C09"})
    r.gen_validate("forward-lf-family", ["parse", "--mode", "enum", "--family", "lf", "--k", 3, "--pieces", 14 if quick else 19, "--chunk", "some"],
                   "Trace_Sink.tla", "Trace_Sink.cfg", N, classify, core.count_resets, timeout=3000, **TS)
    r.gen_validate("forward-random", ["parse", "--mode", "random", "--n", 600 if quick else 8000, "--maxpieces", 20], "Trace_Sink.tla", "Trace_Sink.cfg",
                   N, classify, core.count_resets, timeout=3000, **TS)
    if not quick:
        r.gen_validate("enum-lines-k3", ["tok", "--mode", "enum", "--pset", "lines", "--k", 3, "--pieces", 14, "--chunk", "all"] + F,
                       SPEC, CFG, N * 4, classify, core.count_lines, timeout=6000, xmx="4g")
        r.gen_validate("prefixed-lines-k3", ["tok", "--mode", "prefixed", "--pset", "lines", "--k", 3, "--pieces", 14, "--chunk", "some"] + F,
                       SPEC, CFG, N * 4, classify, core.count_lines, timeout=6000, xmx="4g")
    r.assumptions = [
        "consumed = characters fed minus characters left in the harness-owned BufferQueue at the moment of emission; parse-error "
        "tokens emitted by the character-reference sub-tokenizer while it holds look-ahead that it pushes back are judged "
        "against the interval between the previous token's position and that bound",
        "forwarding: the sink must have been told the token's line (set_current_line) before any other call made while that "
        "token is processed; the sink's initial line is 1"]
    return r.finish(RULE)
