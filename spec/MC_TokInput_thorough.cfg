SPECIFICATION Spec
CONSTANTS
  Defects = {}
  MaxPieces = 3
  MaxFeeds = 3
  PieceSet <- MC_Pieces
  StartSet <- MC_Starts
  Injects <- MC_NoInjects
  BomOpts = {FALSE}
INVARIANTS TokensRefine SameAsOnePiece LineInv QueueDrained OneEofLast
CHECK_DEADLOCK FALSE
