"""C18 - trace_handles reports every node the tree builder still needs."""
from . import core
from .sinkcommon import run_sink_property

RULE = ("Real parses with a suspension at every chunk boundary (all-1-character chunkings, single cuts, script pauses): at "
        "each suspension the harness calls trace_handles; TLC (Trace_Sink) computes on the abstract DOM what a collection "
        "keeping the traced handles and everything connected to them (parent, children, template contents/host) would "
        "discard, and rejects any later sink call that receives a discarded node.")


def run(tier, seed, replay=None):
    N = core.NCPU
    q = tier == "quick"
    plans = [
        ("xml-soup-1char", ["xml", "--mode", "sink", "--gen", "text", "--n", 400 if q else 6000, "--gc", "--chunk", "chars"], N),
        ("xml-structured-cuts", ["xml", "--mode", "sink", "--n", 300 if q else 5000, "--gc", "--chunk", "some"], N),
        ("enum-families-k3-1char", ["parse", "--mode", "enum", "--k", 3, "--pieces", 10 if q else 14, "--gc", "--chunk", "chars", "--loud"], N),
        ("enum-families-k4-1char", ["parse", "--mode", "enum", "--k", 4, "--pieces", 9, "--gc", "--chunk", "chars", "--loud"], N * 2, "thorough"),
        ("random-cuts", ["parse", "--mode", "random", "--n", 400 if q else 6000, "--maxpieces", 14, "--gc", "--chunk", "some", "--loud"], N),
    ]
    return run_sink_property("C18", RULE, tier, seed, replay, plans,
                             ["suspension points are the points where feed() returns (chunk boundaries, script and encoding "
                              "pauses); 1-character chunks make every character boundary one",
                              "'connected' = same tree (parent/children links) including template contents and their host"],
                             mc=[("MC_Dom", "MC_Dom.tla", "MC_Dom.cfg", "MC_Dom_thorough.cfg")])
