----------------------------- MODULE Trace_Tree -----------------------------
(***************************************************************************)
(* C02 judge.  Each record is one real parse: the configuration, the       *)
(* tokens the tree builder received (with the tokenizer-state reply it     *)
(* gave to each and its answers to the CDATA question), the final RcDom    *)
(* tree with the per-element duplicate-attribute flag, and the quirks mode *)
(* reported to the sink.  The L0 tree construction (HtmlTreeRules) is run  *)
(* over the same tokens; the results must be identical.                    *)
(* REJECT = the implementation's tree / quirks / state switch differs from *)
(* the standard's; UNDECIDED = it differs on a run that went through the   *)
(* 2025 select rules, which L0 transcribes with low confidence.            *)
(***************************************************************************)
EXTENDS TreeCanon, TLC, Json, IOUtils

Rec == ndJsonDeserialize(IOEnv.TRACE)
VARIABLES l
Init == l = 1

\* tokenizer start state for a fragment's context element (13.4 step 4)
StartState(cfg) ==
    IF cfg.ctx.ns # "html" THEN "Data"
    ELSE IF cfg.ctx.local \in {N_title, N_textarea} THEN "RawData(Rcdata)"
    ELSE IF cfg.ctx.local \in {N_style, N_xmp, N_iframe, N_noembed, N_noframes} THEN "RawData(Rawtext)"
    ELSE IF cfg.ctx.local = N_script THEN "RawData(ScriptData)"
    ELSE IF cfg.ctx.local = N_noscript THEN (IF cfg.scripting THEN "RawData(Rawtext)" ELSE "Data")
    ELSE IF cfg.ctx.local = N_plaintext THEN "Plaintext"
    ELSE "Data"

ReplyKind(r) == IF r \in {"rcdata", "rawtext", "script_data", "plaintext"} THEN r ELSE ""
CdataAnswer(t) == t.open # <<>> /\ Nd(t, AdjCur(t)).ns # "html"

\* fold over the tokens; st = [t, bad] where bad = "" or the first disagreement met on the way
RECURSIVE Fold(_, _, _)
Fold(st, toks, i) ==
    IF i > Len(toks) THEN st
    ELSE LET tk == toks[i].tok IN
         IF tk.k = "cdataq"
         THEN Fold([st EXCEPT !.bad = IF @ = "" /\ tk.ans # CdataAnswer(st.t) THEN "cdata-question" ELSE @], toks, i + 1)
         ELSE LET t1 == ProcToken(st.t, tk) IN
              Fold([t |-> t1, bad |-> IF st.bad = "" /\ ReplyKind(toks[i].r) # t1.ts THEN "tokenizer-state" ELSE st.bad], toks, i + 1)

Judge(e) ==
    IF e.panic # <<>> THEN [why |-> "panic", low |-> FALSE]
    ELSE LET r == Fold([t |-> Start(e.cfg), bad |-> ""], e.toks, 1)
             dom0 == CanonD(r.t.nodes, 0)
             dom == IF e.cfg.drop_doctype THEN DropDoctype(dom0) ELSE dom0
             q == IF r.t.qset THEN r.t.quirks ELSE "no"
             why == IF e.cfg.mode = "frag" /\ e.istate # StartState(e.cfg) THEN "start-state"
                    ELSE IF dom # e.dom THEN "tree"
                    ELSE IF q # e.quirks THEN "quirks"
                    ELSE r.bad IN
         [why |-> why, low |-> r.t.low]

Next == /\ l <= Len(Rec)
        /\ l' = l + 1
        /\ LET e == Rec[l]
               v == Judge(e) IN
           \/ v.why = ""
           \/ (v.why # "" /\ v.low /\ PrintT(<<"UNDECIDED", l, e.case, v.why>>))
           \/ (v.why # "" /\ ~v.low /\ PrintT(<<"REJECT", l, e.case, v.why>>))

Spec == Init /\ [][Next]_l
AllConsumed == \/ TLCGet("stats").diameter = Len(Rec) + 1
               \/ PrintT(<<"NOT-CONSUMED", TLCGet("stats").diameter, Len(Rec)>>) /\ FALSE
=============================================================================
