SPECIFICATION Spec
CONSTANTS
  MaxToks = 4
  VocabIdx = {23, 24, 25, 26, 27, 28, 29, 30, 3, 7, 9, 2, 6, 11, 67, 68, 78, 79, 80, 73}
  CtxIdx = {1, 6, 7}
  Scripting = TRUE
  DoExport = TRUE
INVARIANTS Structure Ark TemplateModes AtEof FragEof Export
CHECK_DEADLOCK FALSE
