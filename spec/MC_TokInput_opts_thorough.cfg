SPECIFICATION Spec
CONSTANTS
  Defects = {}
  MaxPieces = 3
  MaxFeeds = 2
  PieceSet <- MC_Pieces
  StartSet <- MC_StartsQuick
  Injects <- MC_Injects
  BomOpts = {FALSE, TRUE}
INVARIANTS TokensRefine OptsIrrelevant QueueDrained OneEofLast
CHECK_DEADLOCK FALSE
