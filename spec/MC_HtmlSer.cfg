SPECIFICATION Spec
CONSTANTS
  MaxLen = 3
  DoExport = TRUE
INVARIANTS TextSafe AttrSafe Export
CHECK_DEADLOCK FALSE
