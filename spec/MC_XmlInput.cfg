SPECIFICATION Spec
CONSTANTS
  MaxLen = 5
  StopSet <- MC_DataSet
  Defects = {}
INVARIANT UniformPreprocessing
CHECK_DEADLOCK FALSE
