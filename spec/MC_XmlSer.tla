------------------------------ MODULE MC_XmlSer ------------------------------
(***************************************************************************)
(* L1: the declaration bookkeeping of xml5ever's serializer (a stack of    *)
(* maps; start_elem registers the names of the element and of its          *)
(* attributes, writes the new map as xmlns declarations; end_elem pops)    *)
(* over every well-nested sequence of start/end events whose names carry   *)
(* (prefix, namespace) pairs as the parser produces them.  Property: in    *)
(* the *output*, lexical resolution (XmlNamespaces, L0) of every element   *)
(* and attribute name gives back its namespace -- i.e. every prefix used   *)
(* is declared, and no-namespace elements do not inherit a default.        *)
(* `Defects` switches reproduce the four repaired defects.                 *)
(***************************************************************************)
EXTENDS XmlNamespaces, TLC

CONSTANTS MaxEvents, Defects
VARIABLES stack, outChain, depth, n, ok
\* stack: the serializer's maps (each a sequence of [key, uri]); outChain: declarations actually
\* written on the currently open output elements (innermost last)
vars == <<stack, outChain, depth, n, ok>>

c_p == <<112>>  c_q == <<113>>  c_u == <<117>>  c_v == <<118>>
QN(pre, ns) == [prefix |-> pre, ns |-> ns]
ElemNames == {QN(<<>>, <<>>), QN(<<>>, c_u), QN(<<>>, c_v), QN(<<c_p>>, c_u), QN(<<c_p>>, c_v), QN(<<c_q>>, c_u), QN(<<c_p>>, <<>>)}
AttrNames == {QN(<<c_p>>, c_u), QN(<<c_q>>, c_u), QN(<<c_q>>, c_v)}
AttrLists == {<<>>} \cup {<<a>> : a \in AttrNames} \cup {<<a, b>> : a \in AttrNames, b \in AttrNames}

Init == stack = <<>> /\ outChain = <<>> /\ depth = 0 /\ n = 0 /\ ok = TRUE

\* find_uri: nearest map that binds the prefix to a URI; does it bind it to this namespace?
RECURSIVE FindUri(_, _, _)
FindUri(st, i, name) ==
    IF i = 0 THEN FALSE
    ELSE LET d == LookupDecl(st[i], name.prefix) IN
         IF d # <<>> THEN d[1] = name.ns ELSE FindUri(st, i - 1, name)
\* insert into the innermost map (BTreeMap insert: replaces)
Insert(st, name) ==
    LET m == st[Len(st)]
        m1 == SelectSeq(m, LAMBDA e : e.key # name.prefix) IN
    [st EXCEPT ![Len(st)] = Append(m1, [key |-> name.prefix, uri |-> name.ns])]
FindOrInsert(st, name) ==
    IF (name.prefix # <<>> \/ name.ns # <<>>) /\ ~FindUri(st, Len(st), name) THEN Insert(st, name) ELSE st
RECURSIVE DefaultInScope(_, _)
DefaultInScope(st, i) == IF i = 0 THEN FALSE
                         ELSE LET d == LookupDecl(st[i], <<>>) IN IF d # <<>> THEN d[1] # <<>> ELSE DefaultInScope(st, i - 1)
RECURSIVE RegisterAll(_, _, _)
RegisterAll(st, attrs, i) == IF i > Len(attrs) THEN st ELSE RegisterAll(FindOrInsert(st, attrs[i]), attrs, i + 1)

Start(name, attrs) ==
    LET s0 == Append(stack, <<>>)
        \* attribute names are registered before the declarations are written (fix 526a06d)
        s1 == IF "decl_before_attrs" \in Defects THEN s0 ELSE RegisterAll(s0, attrs, 1)
        s2 == FindOrInsert(s1, name)
        s3 == IF "no_undeclare" \notin Defects /\ name.prefix = <<>> /\ name.ns = <<>> /\ DefaultInScope(s2, Len(s2))
              THEN Insert(s2, name) ELSE s2
        written == s3[Len(s3)]                                  \* the xmlns declarations of this tag
        s4 == IF "decl_before_attrs" \in Defects THEN RegisterAll(s3, attrs, 1) ELSE s3
        chain == <<written>> \o [i \in 1..Len(outChain) |-> outChain[Len(outChain) - i + 1]] IN
    /\ stack' = s4
    /\ outChain' = Append(outChain, written)
    /\ depth' = depth + 1
    /\ ok' = /\ ElementNs(chain, name.prefix) = name.ns
             /\ \A i \in DOMAIN attrs : AttrNs(chain, attrs[i].prefix) = attrs[i].ns

End(name) ==
    /\ depth > 0
    /\ LET popped == SubSeq(stack, 1, Len(stack) - 1) IN
       stack' = IF "end_pop_first" \in Defects /\ popped # <<>> THEN FindOrInsert(popped, name) ELSE popped
    /\ outChain' = SubSeq(outChain, 1, Len(outChain) - 1)
    /\ depth' = depth - 1
    /\ ok' = TRUE

\* one tag binds each prefix to one namespace (names come from a parser)
Consistent(nm, at) == \A i, j \in DOMAIN at :
    /\ (at[i].prefix = at[j].prefix => at[i].ns = at[j].ns)
    /\ (at[i].prefix = nm.prefix => at[i].ns = nm.ns)

\* the name of the element being closed is not tracked: any name may be closed (superset)
Next == /\ n < MaxEvents /\ n' = n + 1
        /\ \/ \E nm \in ElemNames, at \in AttrLists : Consistent(nm, at) /\ Start(nm, at)
           \/ \E nm \in ElemNames : End(nm)
Spec == Init /\ [][Next]_vars
EveryUsedPrefixDeclared == ok
=============================================================================
