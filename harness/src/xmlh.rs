//! xml5ever driver (C15 C16 C17, XML parts of C04 C05 C18): XmlTokenizer -> token recorder ->
//! XmlTreeBuilder over the monitoring sink around RcDom; XML serializer round trips.
use crate::parse::*;
use crate::tokgen::chunkings;
use crate::util::*;
use markup5ever::buffer_queue::BufferQueue;
use markup5ever::TokenizerResult;
use markup5ever_rcdom::{Handle, NodeData, RcDom, SerializableHandle};
use serde_json::{json, Value};
use std::cell::RefCell;
use xml5ever::tendril::StrTendril;
use xml5ever::tokenizer::{ProcessResult, Tag, TagKind, Token, TokenSink, XmlTokenizer, XmlTokenizerOpts};
use xml5ever::tree_builder::{Tracer, XmlTreeBuilder, XmlTreeBuilderOpts};

fn qn(n: &xml5ever::QualName) -> Value {
    json!({"prefix": match &n.prefix { Some(p) => json!([cps(p)]), None => json!([]) }, "local": cps(&n.local), "ns": ns_tag(&n.ns)})
}

pub fn xtag_json(t: &Tag) -> Value {
    json!({"k": match t.kind { TagKind::StartTag => "start", TagKind::EndTag => "end", TagKind::EmptyTag => "empty", TagKind::ShortTag => "short" },
           "name": qn(&t.name),
           "attrs": t.attrs.iter().map(|a| json!({"prefix": match &a.name.prefix { Some(p) => json!([cps(p)]), None => json!([]) },
                                                     "local": cps(&a.name.local), "v": cps(&a.value)})).collect::<Vec<_>>()})
}

pub struct XRecorder {
    pub tb: XmlTreeBuilder<MonHandle, MonSink>,
}
fn os(o: &Option<StrTendril>) -> Value {
    match o {
        None => json!([]),
        Some(s) => json!([cps(s)]),
    }
}
impl TokenSink for XRecorder {
    type Handle = MonHandle;
    fn process_token(&self, token: Token) -> ProcessResult<MonHandle> {
        let t = match &token {
            Token::Doctype(d) => json!({"k":"doctype","name":os(&d.name),"pub":os(&d.public_id),"sys":os(&d.system_id)}),
            Token::Tag(t) => xtag_json(t),
            Token::ProcessingInstruction(p) => json!({"k":"pi","target":cps(&p.target),"data":cps(&p.data)}),
            Token::Comment(c) => json!({"k":"comment","s":cps(c)}),
            Token::Characters(s) => json!({"k":"chars","s":cps(s)}),
            Token::EndOfFile => json!({"k":"eof"}),
            Token::NullCharacter => json!({"k":"nul"}),
            Token::ParseError(_) => json!({"k":"err"}),
        };
        self.tb.sink.log.borrow_mut().push(json!({"ev":"token","tok":t,"line":0}));
        let r = self.tb.process_token(token);
        self.tb.sink.log.borrow_mut().push(json!({"ev":"reply","r": match &r { ProcessResult::Script(_) => "script", _ => "continue" },"x":[]}));
        r
    }
    fn end(&self) {
        self.tb.end()
    }
}

struct IdTracer(RefCell<Vec<usize>>);
impl Tracer for IdTracer {
    type Handle = MonHandle;
    fn trace_handle(&self, node: &MonHandle) {
        self.0.borrow_mut().push(node.id);
    }
}

pub struct XOut {
    pub events: Vec<Value>,
    pub tree: Value,
    pub dom: Option<RcDom>,
    pub panic: Option<String>,
    pub feeds: Vec<Value>,
    pub parents_ok: bool,
    pub ser: Value,
}

pub fn run_xml(chunks: &[String], exact: bool, bom: bool, profile: bool, gc: bool) -> XOut {
    run_xml_opts(chunks, exact, bom, profile, gc, true)
}

/// `want_tree` = false skips the (recursive) dump and parent-link walk of this harness (scaled inputs)
pub fn run_xml_opts(chunks: &[String], exact: bool, bom: bool, profile: bool, gc: bool, want_tree: bool) -> XOut {
    let sink = MonSink::new(true);
    let tb = XmlTreeBuilder::new(sink, XmlTreeBuilderOpts::default());
    let tok = XmlTokenizer::new(XRecorder { tb }, XmlTokenizerOpts { exact_errors: exact, discard_bom: bom, profile, initial_state: None });
    let queue = BufferQueue::default();
    let mut feeds = Vec::new();
    let r = catch(|| {
        for ch in chunks {
            queue.push_back(StrTendril::from_slice(ch));
            tok.sink.tb.sink.log.borrow_mut().push(json!({"ev":"feed","n":ch.chars().count()}));
            loop {
                let res = tok.feed(&queue);
                let ret = match &res {
                    TokenizerResult::Done => "done",
                    TokenizerResult::Script(_) => "script",
                    TokenizerResult::EncodingIndicator(_) => "enc",
                };
                let e = json!({"ev":"feed_ret","ret":ret,"x":[],"empty":queue.is_empty()});
                feeds.push(e.clone());
                tok.sink.tb.sink.log.borrow_mut().push(e);
                if gc {
                    let t = IdTracer(RefCell::new(Vec::new()));
                    tok.sink.tb.trace_handles(&t);
                    tok.sink.tb.sink.log.borrow_mut().push(json!({"ev":"trace_handles","ids":t.0.into_inner()}));
                }
                if ret == "done" {
                    break;
                }
            }
        }
        tok.sink.tb.sink.log.borrow_mut().push(json!({"ev":"end"}));
        tok.end();
    });
    let panic = r.err();
    let events = tok.sink.tb.sink.log.replace(Vec::new());
    let ok = panic.is_none() && want_tree;
    let tree = if ok { dump(&tok.sink.tb.sink.inner.document) } else { json!({"k":"none"}) };
    let parents_ok = if ok { parents_consistent(&tok.sink.tb.sink.inner.document) } else { true };
    let ser = if ok { ser_events(&tok.sink.tb.sink.inner.document) } else { json!([]) };
    XOut { events, tree, dom: None, panic, feeds, parents_ok, ser }
}

/// plain parse into RcDom (for serializer round trips)
pub fn parse_rcdom(text: &str) -> RcDom {
    use xml5ever::driver::parse_document;
    use xml5ever::tendril::TendrilSink;
    parse_document(RcDom::default(), Default::default()).one(StrTendril::from_slice(text))
}

pub fn serialize_xml(dom: &RcDom) -> Result<Vec<u8>, String> {
    let mut out = Vec::new();
    let doc: SerializableHandle = dom.document.clone().into();
    xml5ever::serialize::serialize(&mut out, &doc, Default::default()).map_err(|e| e.to_string())?;
    Ok(out)
}

/// canonical dump that keeps prefixes of element names (for C17) and drops doctype ids
pub fn dump_ns(h: &Handle) -> Value {
    let ch = || Value::Array(h.children.borrow().iter().map(dump_ns).collect());
    match &h.data {
        NodeData::Document => json!({"k":"doc","ch":ch()}),
        NodeData::Doctype { name, .. } => json!({"k":"doctype","name":cps(name)}),
        NodeData::Text { contents } => json!({"k":"text","s":cps(&contents.borrow())}),
        NodeData::Comment { contents } => json!({"k":"comment","s":cps(contents)}),
        NodeData::Element { name, attrs, .. } => json!({"k":"el","ns":ns_tag(&name.ns),
            "prefix": match &name.prefix { Some(p) => json!([cps(p)]), None => json!([]) },
            "local":cps(&name.local),"attrs":attrs_json(&attrs.borrow()),"ch":ch()}),
        NodeData::ProcessingInstruction { target, contents } => json!({"k":"pi","target":cps(target),"data":cps(contents)}),
    }
}

// ---- structured XML generation -------------------------------------------------------------

/// render a tag description {"k","prefix","local","attrs":[{"prefix","local","v"}]} / text / comment
pub fn render(items: &[Value]) -> String {
    let mut s = String::new();
    let name = |x: &Value| -> String {
        let l = from_cps(&x["local"]);
        match x["prefix"].as_array().and_then(|a| a.first()) {
            Some(p) => format!("{}:{}", from_cps(p), l),
            None => l,
        }
    };
    for it in items {
        match it["k"].as_str().unwrap() {
            "start" | "empty" => {
                s.push('<');
                s.push_str(&name(it));
                for a in it["attrs"].as_array().unwrap() {
                    s.push(' ');
                    s.push_str(&name(a));
                    s.push_str("=\"");
                    s.push_str(&from_cps(&a["v"]));
                    s.push('"');
                }
                s.push_str(if it["k"] == "empty" { "/>" } else { ">" });
            },
            "end" => {
                s.push_str("</");
                s.push_str(&name(it));
                s.push('>');
            },
            "short" => s.push_str("</>"),
            "text" => s.push_str(&from_cps(&it["s"])),
            _ => {},
        }
    }
    s
}

fn tagj(k: &str, prefix: Option<&str>, local: &str, attrs: Vec<Value>) -> Value {
    json!({"k":k,"prefix": match prefix { Some(p) => json!([cps(p)]), None => json!([]) },"local":cps(local),"attrs":attrs})
}
fn attrj(prefix: Option<&str>, local: &str, v: &str) -> Value {
    json!({"prefix": match prefix { Some(p) => json!([cps(p)]), None => json!([]) },"local":cps(local),"v":cps(v)})
}

fn gen_items(r: &mut Rng, n: usize, rich: bool) -> Vec<Value> {
    let names: &[(Option<&str>, &str)] = &[(None, "a"), (Some("p"), "a"), (Some("q"), "b"), (None, "script"), (None, "b"), (Some("xml"), "c"), (Some("z"), "a")];
    let decls: &[(Option<&str>, &str, &str)] = &[(None, "xmlns", "u"), (None, "xmlns", ""), (Some("xmlns"), "p", "u"), (Some("xmlns"), "p", "v"),
        (Some("xmlns"), "p", ""), (Some("xmlns"), "q", "u"), (None, "xmlns", "w"), (Some("xmlns"), "xml", "u"), (Some("xmlns"), "xmlns", "u"),
        (Some("xmlns"), "xml", "http://www.w3.org/XML/1998/namespace"), (Some("xmlns"), "q", "http://www.w3.org/2000/xmlns/")];
    let plain: &[(Option<&str>, &str)] = &[(None, "x"), (Some("p"), "x"), (Some("q"), "x"), (None, "y"), (Some("xml"), "lang"), (Some("z"), "x")];
    let mut items = Vec::new();
    let mut open: Vec<(Option<String>, String)> = Vec::new();
    for _ in 0..n {
        match r.below(10) {
            0..=4 => {
                let (p, l) = *r.pick(names);
                let mut attrs = Vec::new();
                let na = r.below(4);
                for _ in 0..na {
                    if r.chance(1, 2) {
                        let (dp, dl, dv) = *r.pick(decls);
                        let dupkey = attrs.iter().any(|a: &Value| a["local"] == cps(dl) && a["prefix"] == match dp { Some(p) => json!([cps(p)]), None => json!([]) });
                        if dupkey {
                            continue;
                        }
                        attrs.push(attrj(dp, dl, dv));
                    } else {
                        let (ap, al) = *r.pick(plain);
                        // character references and markup characters only for the serializer round trip (C17): the
                        // namespace judge (C16) compares attribute values with the source text literally
                        let vals: &[&str] = if rich { &["1", "2", "", "&amp;", "&#13;", "&lt;", "'", "&quot;", "a b", "&#10;", "&gt;", "é&#9;"] } else { &["1", "2", ""] };
                        attrs.push(attrj(ap, al, *r.pick(vals)));
                    }
                }
                let empty = r.chance(1, 3);
                items.push(tagj(if empty { "empty" } else { "start" }, p, l, attrs));
                if !empty {
                    open.push((p.map(|s| s.to_string()), l.to_string()));
                }
            },
            5 | 6 => {
                if let Some((p, l)) = open.pop() {
                    if r.chance(1, 8) {
                        items.push(tagj("short", None, "", vec![]));
                    } else if r.chance(1, 8) {
                        // mismatched end tag (error recovery)
                        let (p2, l2) = *r.pick(names);
                        items.push(tagj("end", p2, l2, vec![]));
                        open.push((p, l));
                    } else {
                        items.push(tagj("end", p.as_deref(), &l, vec![]));
                    }
                }
            },
            7 => {
                let texts: &[&str] = if rich { &["t", " ", "x y", "&#13;", "&amp;", "&lt;&gt;", "&quot;'", "]]&gt;", "&#9;&#10;", "é", "<!--c-->", "<?p d?>", "&#13;&#10;"] } else { &["t", " ", "x y"] };
                items.push(json!({"k":"text","s":cps(*r.pick(texts))}))
            },
            _ => {
                if let Some((p, l)) = open.last().cloned() {
                    if r.chance(1, 2) {
                        open.pop();
                        items.push(tagj("end", p.as_deref(), &l, vec![]));
                    }
                }
            },
        }
    }
    while let Some((p, l)) = open.pop() {
        if r.chance(9, 10) {
            items.push(tagj("end", p.as_deref(), &l, vec![]));
        }
    }
    items
}

/// C16 projection: every element the tree builder created, aligned with the source tag that
/// caused it (i-th tag token <-> i-th tag item), with its parent at insertion time.
fn created_elements(events: &[Value]) -> Vec<Value> {
    let mut out = Vec::new();
    let mut tagidx = 0usize;
    let mut cur: Option<usize> = None;
    let mut pending: Option<Value> = None;
    for e in events {
        match e["ev"].as_str().unwrap_or("") {
            "token" => {
                let k = e["tok"]["k"].as_str().unwrap_or("");
                if matches!(k, "start" | "end" | "empty" | "short") {
                    tagidx += 1;
                    cur = Some(tagidx);
                } else {
                    cur = None;
                }
            },
            "create_element" => {
                let uri = |t: &Value| cps(&ns_from_tag(t.as_str().unwrap_or("")).to_string());
                let attrs: Vec<Value> = e["attrs"].as_array().unwrap().iter()
                    .map(|a| json!({"nsu": uri(&a["ns"]), "prefix": a["prefix"], "local": a["local"], "v": a["v"]})).collect();
                let mut c = json!({"tag": cur.unwrap_or(0), "id": e["id"], "nsu": uri(&e["ns"]), "prefix": e["prefix"], "local": e["local"],
                                   "attrs": attrs, "parent": -1});
                c["parent"] = json!(-1);
                pending = Some(c);
            },
            "append" => {
                if let Some(mut c) = pending.take() {
                    if e["k"] == "node" && e["child"] == c["id"] {
                        c["parent"] = e["parent"].clone();
                    }
                    out.push(c);
                }
            },
            _ => {},
        }
    }
    if let Some(c) = pending.take() {
        out.push(c);
    }
    out
}

const XWORDS: &[&str] = &[
    "<a>", "</a>", "<b x=\"1\">", "</b>", "<c/>", "<a b='", "'>", "<a b=\"", "\">", "<a b=", " ", "\n", "\r", "\r\n", "\0", "\u{feff}", "&amp;", "&amp", "&lt;",
    "&#65;", "&#x41;", "&#", "&#x", "&", ";", "<!--", "-->", "-", "<?pi", "?>", "<!DOCTYPE", " a", " PUBLIC", " SYSTEM", " \"p\"", " 's'", ">", "<", "/",
    "=", "<![CDATA[", "]]>", "]", "x", "t", "é", "<p:q xmlns:p=\"u\">", "</p:q>", "</>", "\t", "&notin;", "&#13;", "&#10;", "&#0;",
];

pub fn xml_text(r: &mut Rng, maxw: usize) -> String {
    let n = 1 + r.below(maxw);
    let mut s = String::new();
    if r.chance(1, 2) {
        s.push_str("<r>");
    }
    for _ in 0..n {
        let w: &str = *r.pick(XWORDS);
        s.push_str(w);
    }
    s
}

pub fn main(args: &Args) {
    let mut out = Out::new();
    let mode = args.get("mode").unwrap_or("ns").to_string();
    let how = args.get("chunk").unwrap_or("none").to_string();
    let mut id = 0u64;
    let mut r = Rng::new(args.num("seed", 1));
    let mut cr = Rng::new(args.num("seed", 1) ^ 0x99);
    let cases: Vec<Value> = if args.has("replay") {
        read_cases().into_iter().filter(|c| (c.get("ev").is_none() && (c.get("items").is_some() || c.get("text").is_some()))
                                            || (c["ev"] == "reset" && c.get("chunks").is_some())
                                            || (c["ev"] == "case" && (c.get("items").is_some() || c.get("text").is_some()))).collect()
    } else if mode == "sched" {
        let shard = args.num("shard", 0);
        let shards = args.num("shards", 1).max(1);
        if args.get("gen") == Some("enum") {
            // every string of <= k pieces over a small alphabet rich in CR / LF / NUL / BOM / references / doctype keywords
            let pieces: &[&str] = &["\r", "\n", "\0", "\u{feff}", "<a>", "</a>", "<a b=\"", "\">", "&amp", "&#65", ";", "x", "<!DOCTYPE a", " PUBLIC", " \"p\"", ">", "\r\nPUBLIC \"p\">", "\rSYSTEM 's'>", "<a b='", "<!--", "-->", "<?p", "?>", "<![CDATA[", "]]>"];
            let k = args.num("k", 3) as usize;
            let mut v = Vec::new();
            let mut n = 0u64;
            for len in 1..=k {
                for idx in 0..pieces.len().pow(len as u32) {
                    n += 1;
                    if n % shards != shard {
                        continue;
                    }
                    let mut t = String::new();
                    let mut x = idx;
                    for _ in 0..len {
                        t.push_str(pieces[x % pieces.len()]);
                        x /= pieces.len();
                    }
                    v.push(json!({"text": cps(&format!("<r>{}", t))}));
                    if len <= 2 {
                        v.push(json!({"text": cps(&t)}));
                    }
                }
            }
            v
        } else {
            (0..args.num("n", 100)).map(|_| json!({"text": cps(&xml_text(&mut r, 12))})).collect()
        }
    } else if args.get("gen") == Some("scaled") {
        std::env::set_var("VH_NOTE", "1");
        let n = args.num("scale", 10000) as usize;
        let units = ["<a>", "<a xmlns:p='u'>", "<p:a xmlns:p='u' p:b='c'>", "<?pi ", "<!--", "</a>", "<a/>", "<a b='c' ", "&amp;", "&#65", "<![CDATA[", "]]>", "<!DOCTYPE a ",
                     "\r", "\0", "x", "<", "</", "<a xmlns=''>", "<a xmlns='u'>", "\u{feff}"];
        units.iter().map(|u| { let mut t = String::from("<r>"); for _ in 0..(n / u.len()).max(1) { t.push_str(u); } json!({"text": cps(&t), "scaled": true}) }).collect()
    } else if args.get("gen") == Some("text") {
        (0..args.num("n", 100)).map(|_| json!({"text": cps(&xml_text(&mut r, 12))})).collect()
    } else {
        (0..args.num("n", 100)).map(|_| { let k = 2 + r.below(14); json!({"items": gen_items(&mut r, k, mode == "ser")}) }).collect()
    };
    for c in cases {
        let replay_chunks: Option<Vec<String>> = if args.has("replay") && c["ev"] == "reset" {
            c["chunks"].as_array().map(|a| a.iter().map(from_cps).collect())
        } else {
            None
        };
        let text = if let Some(ch) = &replay_chunks { ch.concat() }
                   else if c.get("items").map(|i| i.as_array().map(|a| !a.is_empty()).unwrap_or(false)).unwrap_or(false) { render(c["items"].as_array().unwrap()) }
                   else { from_cps(&c["text"]) };
        match mode.as_str() {
            "ns" => {
                id += 1;
                let xo = run_xml(&[text.clone()], false, true, false, false);
                out.line(&json!({"ev":"case","case":id,"items":c.get("items").cloned().unwrap_or(json!([])),"text":cps(&text),
                                 "created": created_elements(&xo.events),
                                 "toks": xo.events.iter().filter(|e| e["ev"] == "token").map(|e| e["tok"].clone()).collect::<Vec<_>>(),
                                 "ntagtokens": xo.events.iter().filter(|e| e["ev"]=="token" && matches!(e["tok"]["k"].as_str().unwrap_or(""), "start"|"end"|"empty"|"short")).count(),
                                 "panic": match &xo.panic { Some(m) => json!([cps(m)]), None => json!([]) }}));
            },
            "sink" => {
                // sink-call trace in the Trace_Sink format (C04 C05 C18 C20 for the XML tree builder)
                let gc = args.has("gc") || c["cfg"]["gc"] == true;
                let chs = match &replay_chunks { Some(ch) => vec![ch.clone()], None => chunkings(&text, &how, &mut cr) };
                for ch in chs {
                    id += 1;
                    if c["scaled"] == true || c["cfg"]["scaled"] == true {
                        crate::tok::note_current(&json!({"ev":"reset","case":id,"cfg":{"mode":"xml","gc":gc,"scaled":true},"chunks":ch.iter().map(|x| cps(x)).collect::<Vec<_>>()}));
                        let xo = run_xml_opts(&ch, false, true, false, gc, false);
                        out.line(&json!({"ev":"reset","case":id,"cfg":{"mode":"xml","gc":gc,"scaled":true},"chunks":[]}));
                        for mut e in xo.feeds {
                            e["case"] = json!(id);
                            out.line(&e);
                        }
                        let neof = xo.events.iter().filter(|e| e["ev"] == "token" && e["tok"]["k"] == "eof").count();
                        out.line(&json!({"ev":"tree","case":id,"dom":{"k":"none"},"quirks":"no","parents_ok":true,
                                         "panic": match &xo.panic { Some(m) => json!([cps(m)]), None => json!([]) }, "neof": neof}));
                        continue;
                    }
                    let xo = run_xml(&ch, false, true, false, gc);
                    out.line(&json!({"ev":"reset","case":id,"cfg":{"mode":"xml","gc":gc},"chunks":ch.iter().map(|x| cps(x)).collect::<Vec<_>>(),"items":c.get("items").cloned().unwrap_or(json!([]))}));
                    let neof = xo.events.iter().filter(|e| e["ev"] == "token" && e["tok"]["k"] == "eof").count();
                    for mut e in xo.events {
                        if e["ev"] == "token" || e["ev"] == "reply" {
                            continue; // XML tokens have their own shape; not needed by Trace_Sink
                        }
                        e["case"] = json!(id);
                        out.line(&e);
                    }
                    out.line(&json!({"ev":"tree","case":id,"dom":xo.tree,"quirks":"no","parents_ok":xo.parents_ok,
                                     "panic": match &xo.panic { Some(m) => json!([cps(m)]), None => json!([]) }, "neof": neof, "ser": xo.ser}));
                }
            },
            "ser" => {
                // C17: parse, serialize, parse again; both trees (with prefixes, without doctype ids) and the bytes
                id += 1;
                let r1 = catch(|| {
                    let d1 = parse_rcdom(&text);
                    let t1 = dump_ns(&d1.document);
                    let bytes = serialize_xml(&d1);
                    (t1, bytes)
                });
                match r1 {
                    Ok((t1, Ok(bytes))) => {
                        let s2 = String::from_utf8_lossy(&bytes).to_string();
                        let r2 = catch(|| dump_ns(&parse_rcdom(&s2).document));
                        match r2 {
                            Ok(t2) => out.line(&json!({"ev":"case","case":id,"text":cps(&text),"t1":t1,"ser":cps(&s2),"t2":t2,"panic":[]})),
                            Err(m) => out.line(&json!({"ev":"case","case":id,"text":cps(&text),"t1":t1,"ser":cps(&s2),"t2":{"k":"none"},"panic":[cps(&m)]})),
                        }
                    },
                    Ok((t1, Err(m))) => out.line(&json!({"ev":"case","case":id,"text":cps(&text),"t1":t1,"ser":[],"t2":{"k":"none"},"panic":[cps(&m)]})),
                    Err(m) => out.line(&json!({"ev":"case","case":id,"text":cps(&text),"t1":{"k":"none"},"ser":[],"t2":{"k":"none"},"panic":[cps(&m)]})),
                }
            },
            "sched" => {
                // C15: reference = one piece with exact_errors; variants = chunkings x {exact_errors, profile};
                // plus the source-normalised input and the BOM-prefixed input
                id += 1;
                let group = id;
                let tokview = |xo: &XOut| -> Value {
                    // token stream minus errors, adjacent character tokens concatenated
                    let mut v: Vec<Value> = Vec::new();
                    for e in xo.events.iter().filter(|e| e["ev"] == "token") {
                        let t = &e["tok"];
                        if t["k"] == "err" {
                            continue;
                        }
                        if t["k"] == "chars" {
                            if let Some(last) = v.last_mut() {
                                if last["k"] == "chars" {
                                    let add = t["s"].as_array().unwrap().clone();
                                    last["s"].as_array_mut().unwrap().extend(add);
                                    continue;
                                }
                            }
                        }
                        v.push(t.clone());
                    }
                    Value::Array(v)
                };
                let line = |ev: &str, xo: &XOut, input: &str, chunks: &[String], exact: bool, bom: bool, profile: bool| -> Value {
                    json!({"ev":ev,"case":group,"input":cps(input),"chunks":chunks.iter().map(|x| cps(x)).collect::<Vec<_>>(),
                           "exact":exact,"bom":bom,"profile":profile,"tree":xo.tree,"toks":tokview(xo),
                           "panic": match &xo.panic { Some(m) => json!([cps(m)]), None => json!([]) }})
                };
                let bom = !args.has("nobom");
                let one = vec![text.clone()];
                let xo = run_xml(&one, true, bom, false, false);
                out.line(&line("ref", &xo, &text, &one, true, bom, false));
                for ch in chunkings(&text, &how, &mut cr) {
                    for (exact, profile) in [(false, false), (true, false), (false, true)] {
                        let xo = run_xml(&ch, exact, bom, profile, false);
                        out.line(&line("var", &xo, &text, &ch, exact, bom, profile));
                    }
                }
                // R2: the same document with line breaks and NUL normalised in the source
                let norm: String = {
                    let mut o = String::new();
                    let cs: Vec<char> = text.chars().collect();
                    let mut i = 0;
                    while i < cs.len() {
                        match cs[i] {
                            '\r' => {
                                o.push('\n');
                                if i + 1 < cs.len() && cs[i + 1] == '\n' {
                                    i += 1;
                                }
                            },
                            '\0' => o.push('\u{fffd}'),
                            c => o.push(c),
                        }
                        i += 1;
                    }
                    o
                };
                let n1 = vec![norm.clone()];
                let xo = run_xml(&n1, true, bom, false, false);
                out.line(&line("norm", &xo, &norm, &n1, true, bom, false));
                // R3: a U+FEFF in front of the stream is dropped (discard_bom), and only there
                let b = format!("{}{}", '\u{feff}', text);
                let b1 = vec![b.clone()];
                let xo = run_xml(&b1, true, true, false, false);
                out.line(&line("bomrun", &xo, &b, &b1, true, true, false));
            },
            _ => {},
        }
    }
    out.flush();
}
