#!/bin/bash
# dev aid: run every registered quick check on the current tree; print one line each
cd "$(dirname "$0")"
for c in $(python3 -c "import json; print(' '.join(x['property_id'] for x in json.load(open('MANIFEST.json'))['checks']))"); do
  t0=$(date +%s); out=$(./check $c --tier ${1:-quick} 2>&1); rc=$?; t1=$(date +%s)
  echo "$c exit=$rc $((t1-t0))s $(echo "$out" | grep -E 'VIOLATION|TOOL-ERROR|KNOWN' | head -2 | tr '\n' ' ')"
done
