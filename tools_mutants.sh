#!/bin/bash
# dev aid: apply every mutants/<ID>-*.patch (reverse of a fix) to /repo in turn, run the owning quick check, expect exit 1
# usage: tools_mutants.sh [ID-prefix]
cd "$(dirname "$0")"
for p in mutants/${1:-C}*.patch; do
  id=$(basename $p | cut -d- -f1)
  git -C /repo checkout -q -- . ; if ! git -C /repo apply $PWD/$p 2>/dev/null; then echo "$p: does not apply"; continue; fi
  t0=$(date +%s); out=$(./check $id 2>&1); rc=$?; t1=$(date +%s)
  echo "$(basename $p) exit=$rc $((t1-t0))s $(echo "$out" | grep -cE '^VIOLATION') violation lines"
  git -C /repo checkout -q -- .
done
