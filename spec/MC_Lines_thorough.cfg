SPECIFICATION Spec
CONSTANTS MaxLen = 11
INVARIANTS WholeAgrees PrefixAgrees Monotone
CHECK_DEADLOCK FALSE
