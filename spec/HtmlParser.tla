----------------------------- MODULE HtmlParser -----------------------------
(***************************************************************************)
(* L0: the HTML parser as a whole - input stream preprocessing, the        *)
(* tokenizer of HtmlTokenizer and the tree construction of HtmlTreeRules   *)
(* composed with their two feedback edges (13.2.5 / 13.2.6):               *)
(*   - tree construction switches the tokenizer state when it inserts a    *)
(*     raw text / RCDATA / script / plaintext element;                     *)
(*   - the markup declaration open state accepts "[CDATA[" only while the  *)
(*     adjusted current node is not in the HTML namespace.                 *)
(* Tokens are handed to tree construction before anything consults its     *)
(* state again, so both edges see the state the standard prescribes.  No   *)
(* script runs.                                                            *)
(***************************************************************************)
EXTENDS HtmlTreeRules, Preprocess

Tok == INSTANCE HtmlTokenizer

CdataAllowed(t) == t.open # <<>> /\ Nd(t, AdjCur(t)).ns # "html"

\* hand the tokens emitted by one tokenizer step to tree construction
RECURSIVE Deliver(_, _, _)
Deliver(t, toks, i) == IF i > Len(toks) THEN t ELSE Deliver(ProcToken(t, Tok!StripAt(toks[i])), toks, i + 1)

\* after delivering: the tokenizer state asked for by tree construction, if any
Switched(s, t) == IF t.ts = "" THEN s ELSE [s EXCEPT !.st = Tok!StateAfterReply(t.ts)]

TokCfg(s, t) == [state |-> s.st, last |-> s.last, cdata |-> CdataAllowed(t), replies |-> <<>>, inject |-> <<>>]

\* Character tokens are handed over in runs (tree construction treats a run exactly like its characters one by
\* one); a run is flushed before anything that looks at the tree construction state: another kind of token, the
\* CDATA question of the markup declaration open state, the end of the input.
Flush(t, pend) == IF pend = <<>> THEN t ELSE ProcToken(t, [k |-> "chars", s |-> pend])
AllChars(toks) == \A j \in DOMAIN toks : toks[j].k = "chars"
RECURSIVE CharsOf(_, _)
CharsOf(toks, j) == IF j > Len(toks) THEN <<>> ELSE toks[j].s \o CharsOf(toks, j + 1)

RECURSIVE PRun(_, _, _, _, _)
\* inp: preprocessed input; s0: tokenizer state (its token list is emptied before every step); i: next character;
\* t: tree construction state; pend: characters emitted but not yet handed over
PRun(inp, s0, i, t, pend) ==
    IF t.stopped THEN t
    ELSE IF i > Len(inp) THEN
        LET e == Tok!Eof([s0 EXCEPT !.pos = Len(inp), !.toks = <<>>]) IN Deliver(Flush(t, pend), e.toks, 1)
    ELSE IF s0.st = "MarkupDeclarationOpen" /\ pend # <<>> THEN PRun(inp, s0, i, Flush(t, pend), <<>>)
    ELSE
    LET s == [s0 EXCEPT !.pos = i, !.toks = <<>>]
        cfg == TokCfg(s, t)
        c == inp[i]
        \* one step of the tokenizer: [s, n] = state after it and number of characters consumed
        r == IF s.st = "MarkupDeclarationOpen" THEN
                 IF Tok!MatchExact(inp, i, <<Tok!DASH, Tok!DASH>>) THEN [s |-> Tok!To([s EXCEPT !.cm = <<>>], "CommentStart"), n |-> 2]
                 ELSE IF Tok!MatchCI(inp, i, Tok!S_doctype) THEN [s |-> Tok!To(s, "Doctype"), n |-> 7]
                 ELSE IF Tok!MatchExact(inp, i, Tok!S_cdata) THEN
                     IF cfg.cdata THEN [s |-> Tok!To(s, "CdataSection"), n |-> 7]
                     ELSE [s |-> Tok!To([s EXCEPT !.cm = Tok!S_cdata], "BogusComment"), n |-> 7]
                 ELSE [s |-> Tok!To([s EXCEPT !.cm = <<>>], "BogusComment"), n |-> 0]
             ELSE IF s.st = "AfterDoctypeName" /\ ~IsWs(c) /\ c # Tok!GT /\ Tok!MatchCI(inp, i, Tok!S_public)
                 THEN [s |-> Tok!To(s, "AfterDoctypeKeyword.Public"), n |-> 6]
             ELSE IF s.st = "AfterDoctypeName" /\ ~IsWs(c) /\ c # Tok!GT /\ Tok!MatchCI(inp, i, Tok!S_system)
                 THEN [s |-> Tok!To(s, "AfterDoctypeKeyword.System"), n |-> 6]
             ELSE LET s1 == Tok!Step(s, c, cfg) IN
                  IF s1.cr THEN
                      LET inAttr == s1.st \in Tok!AttrValueStates
                          cr == Tok!CharRefAt(inp, i + 1, inAttr)
                          s2 == [s1 EXCEPT !.cr = FALSE] IN
                      [s |-> IF inAttr THEN [s2 EXCEPT !.av = @ \o cr.chars] ELSE Tok!Emit(s2, cr.chars), n |-> 1 + cr.n]
                  ELSE [s |-> [s1 EXCEPT !.splice = FALSE], n |-> 1] IN
    IF r.s.toks = <<>> THEN PRun(inp, r.s, i + r.n, t, pend)
    ELSE IF AllChars(r.s.toks) THEN PRun(inp, r.s, i + r.n, t, pend \o CharsOf(r.s.toks, 1))
    ELSE LET t1 == Deliver(Flush(t, pend), r.s.toks, 1) IN
         PRun(inp, Switched(r.s, t1), i + r.n, t1, <<>>)

\* the input stream as the tokenizer sees it
Prepared(raw, discardBom) == Normalize(IF discardBom THEN StripBom(raw) ELSE raw)

ParseDocument(raw, scripting, srcdoc, iquirks, discardBom) ==
    PRun(Prepared(raw, discardBom), Tok!InitTok([state |-> "Data", last |-> <<>>]), 1, TbInit(scripting, srcdoc, iquirks), <<>>)

\* tokenizer start state for a fragment's context element (13.4)
FragmentStartState(ctx, scripting) ==
    IF ctx.ns # "html" THEN "Data"
    ELSE IF ctx.local \in {N_title, N_textarea} THEN "RawData.Rcdata"
    ELSE IF ctx.local \in {N_style, N_xmp, N_iframe, N_noembed, N_noframes} THEN "RawData.Rawtext"
    ELSE IF ctx.local = N_script THEN "RawData.ScriptData"
    ELSE IF ctx.local = N_noscript THEN (IF scripting THEN "RawData.Rawtext" ELSE "Data")
    ELSE IF ctx.local = N_plaintext THEN "Plaintext"
    ELSE "Data"

\* t0: the tree construction state prepared for the fragment (FragmentInit, plus a form owner if any)
ParseFragmentFrom(raw, t0, ctx, scripting, discardBom) ==
    PRun(Prepared(raw, discardBom), Tok!InitTok([state |-> FragmentStartState(ctx, scripting), last |-> <<>>]), 1, t0, <<>>)
=============================================================================
