--------------------------- MODULE TendrilConcInd ---------------------------
(***************************************************************************)
(* The refcount protocol of TendrilConc (clone = fetch_add, drop =          *)
(* fetch_sub, destroy by the thread that saw the old count 1, as separate   *)
(* atomic steps) with an UNBOUNDED number of views, and an inductive        *)
(* invariant that implies the C12 safety properties.  Checked with          *)
(* Apalache:                                                               *)
(*   apalache-mc check --init=Init    --inv=IndInv --length=0               *)
(*   apalache-mc check --init=IndInit --inv=IndInv --length=1               *)
(*   apalache-mc check --init=IndInit --inv=Safety --length=0               *)
(* (initial states satisfy it; every step preserves it; it implies safety). *)
(* Same actions as spec/TendrilConc.tla, without the MaxViews bound.        *)
(***************************************************************************)
EXTENDS Integers, Apalache

Threads == {"t1", "t2", "t3"}

VARIABLES
    \* @type: Int;
    rc,
    \* @type: Bool;
    live,
    \* @type: Str -> Int;
    views,
    \* @type: Str -> Bool;
    pending,
    \* @type: Int;
    destroyed

\* @type: (Str -> Int) => Int;
Total(v) == v["t1"] + v["t2"] + v["t3"]

Init == /\ rc = 1 /\ live = TRUE /\ destroyed = 0
        /\ \E t0 \in Threads : views = [t \in Threads |-> IF t = t0 THEN 1 ELSE 0]
        /\ pending = [t \in Threads |-> FALSE]

Clone(t) == /\ views[t] > 0
            /\ rc' = rc + 1
            /\ \E u \in Threads : views' = [views EXCEPT ![u] = @ + 1]
            /\ UNCHANGED <<live, pending, destroyed>>

DecRef(t) == /\ views[t] > 0
             /\ ~pending[t]
             /\ rc' = rc - 1
             /\ views' = [views EXCEPT ![t] = @ - 1]
             /\ pending' = [pending EXCEPT ![t] = (rc = 1)]
             /\ UNCHANGED <<live, destroyed>>

Destroy(t) == /\ pending[t]
              /\ live' = FALSE /\ destroyed' = destroyed + 1
              /\ pending' = [pending EXCEPT ![t] = FALSE]
              /\ UNCHANGED <<rc, views>>

Next == \E t \in Threads : Clone(t) \/ DecRef(t) \/ Destroy(t)

NPending == (IF pending["t1"] THEN 1 ELSE 0) + (IF pending["t2"] THEN 1 ELSE 0) + (IF pending["t3"] THEN 1 ELSE 0)

IndInv ==
    /\ \A t \in Threads : views[t] >= 0
    /\ rc = Total(views)                                   \* the count is the number of views
    /\ destroyed \in {0, 1}
    /\ live <=> (destroyed = 0)
    /\ NPending <= 1
    /\ (NPending = 1) => (rc = 0 /\ live)                   \* the thread that took the count to zero has not destroyed yet
    /\ (rc > 0) => (live /\ NPending = 0)
    /\ (rc = 0 /\ NPending = 0) => ~live                    \* nobody holds a view and nobody is about to destroy: it is gone

\* IndInv as an initial-state predicate (every variable constrained)
IndInit ==
    /\ rc \in Int /\ destroyed \in Int /\ live \in BOOLEAN
    /\ views \in [Threads -> Int]
    /\ pending \in [Threads -> BOOLEAN]
    /\ IndInv

Safety ==
    /\ \A t \in Threads : views[t] > 0 => live               \* NoUseAfterFree
    /\ destroyed <= 1                                        \* DestroyedOnce
    /\ rc = Total(views)                                     \* RefcountIsViews
    /\ ((\A t \in Threads : views[t] = 0 /\ ~pending[t]) => ~live)   \* NothingLeft
=============================================================================
