SPECIFICATION Spec
CONSTANTS
  Bytes <- MC_BytesQuick
  MaxLen = 4
  MaxChunk = 4
  DoExport = TRUE
INVARIANTS CarryOk Streaming Final ExportDone
VIEW View
CHECK_DEADLOCK FALSE
