"""C08 - diagnostic and housekeeping options never change what is parsed."""
import os
from . import core
from .core import Run, WORK
from .c03 import count_refs

RULE = ("Every base case is run under the option sets {exact_errors, discard_bom, profile} x chunkings against the "
        "one-piece default-options reference; TLC judges: tokens (errors dropped) = L0 Tokenize of the input with a "
        "U+FEFF removed iff discard_bom and it is the very first character of the stream; with discard_bom off the "
        "(token, line) sequence equals the reference.  exact_errors forces the character-at-a-time read path, so "
        "this also compares the SIMD/bulk fast paths with the scalar path.  Parser level: real parses under tokenizer and "
        "tree-builder exact_errors, discard_bom off and drop_doctype are judged against the L0 tree builder (from their "
        "tokens) and the L0 parser (from the raw input).")
SPEC, CFG = "Trace_TokSched.tla", "Trace_TokSched.cfg"


def classify(f, objs):
    return False


def run(tier, seed, replay=None):
    r = Run("C08", tier, seed)
    core.build_harness()
    F = ["--fields", "sched", "--pair", "--opts", "all"]
    if replay:
        meta, lines = core.load_replay(replay)
        src = os.path.join(WORK, "traces", "C08-replay-in.ndjson")
        with open(src, "w") as f:
            f.write("\n".join(lines) + "\n")
        if meta.get("sub") == "parse":
            r.gen_validate("replay", ["parse", "--replay", "--c02"], "Trace_Tree.tla", "Trace_Tree.cfg", 1, classify, core.count_lines,
                           stdin_files=[src], also=[("Trace_Parse.tla", "Trace_Parse.cfg")])
            return r.finish(RULE, write=False)
        r.gen_validate("replay", ["tok", "--replay", "--fields", "sched"], SPEC, CFG, 1, classify, count_refs, stdin_files=[src])
        return r.finish(RULE, write=False)
    quick = tier == "quick"
    N = core.NCPU
    res = core.tlc_mc("C08-mc", "MC_TokInput.tla", "MC_TokInput_opts.cfg" if quick else "MC_TokInput_opts_thorough.cfg", timeout=5000, xmx="16g")
    r.add_mc("MC_TokInput(opts)", res)
    r.gen_validate("enum-k2", ["tok", "--mode", "enum", "--k", 2, "--pieces", 24, "--chunk", "none"] + F, SPEC, CFG, N, classify, count_refs,
                   case_key="group", timeout=3000)
    r.gen_validate("bom-enum", ["tok", "--mode", "enum", "--pset", "bom", "--k", 3, "--pieces", 6, "--chunk", "all"] + F, SPEC, CFG, N,
                   classify, count_refs, case_key="group", timeout=3000)
    r.gen_validate("stride", ["tok", "--mode", "stride", "--chunk", "none"] + F, SPEC, CFG, 4, classify, count_refs, case_key="group")
    r.gen_validate("prefixed-k2", ["tok", "--mode", "prefixed", "--k", 2, "--pieces", 20, "--chunk", "none"] + F, SPEC, CFG, N,
                   classify, count_refs, case_key="group", timeout=3000)
    r.gen_validate("random", ["tok", "--mode", "random", "--n", 120 if quick else 4000, "--maxlen", 50, "--chunk", "some"] + F, SPEC, CFG, N,
                   classify, count_refs, case_key="group", timeout=3000)
    # parser level: every case under {tokenizer exact_errors, tree-builder exact_errors, discard_bom off, drop_doctype}: the
    # tree must be the L0 parser's tree of the same input (a leading U+FEFF kept iff discard_bom is off; the doctype node
    # absent iff drop_doctype) - so the options change nothing else
    PT = [("Trace_Parse.tla", "Trace_Parse.cfg")]
    r.gen_validate("tree-optsets-pairs", ["parse", "--c02", "--optsets", "--mode", "enum", "--k", 2, "--pieces", 7 if quick else 24],
                   "Trace_Tree.tla", "Trace_Tree.cfg", N, classify, core.count_lines, timeout=5000, xmx="4g", also=PT)
    r.gen_validate("tree-optsets-tables", ["parse", "--c02", "--optsets", "--mode", "tables", "--tables", os.path.join(core.ROOT, "gen", "c02_tables.json")],
                   "Trace_Tree.tla", "Trace_Tree.cfg", N, classify, core.count_lines, timeout=5000, xmx="4g", also=PT if not quick else ())
    r.gen_validate("tree-optsets-random", ["parse", "--c02", "--optsets", "--mode", "random", "--n", 500 if quick else 30000, "--maxpieces", 20],
                   "Trace_Tree.tla", "Trace_Tree.cfg", N, classify, core.count_lines, timeout=5000, xmx="4g", also=PT)
    r.assumptions = ["the XML tokenizer's options are judged in C15",
                     "profile = true prints a timing table on stdout; the harness writes its trace to a separate file"]
    return r.finish(RULE)
