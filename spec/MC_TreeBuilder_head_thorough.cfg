SPECIFICATION Spec
CONSTANTS
  MaxToks = 4
  VocabIdx = {31, 32, 33, 34, 35, 36, 37, 38, 39, 40, 81, 9, 10, 71, 72, 74, 21, 22, 92, 93}
  CtxIdx = {1, 9}
  Scripting = FALSE
  DoExport = TRUE
INVARIANTS Structure Ark TemplateModes AtEof FragEof Export
CHECK_DEADLOCK FALSE
