------------------------------ MODULE Tendril ------------------------------
(***************************************************************************)
(* tendril::Tendril.                                                       *)
(* L0: every tendril *is* a byte string of its format; operations have the *)
(* Vec<u8>/String meaning, and checked operations fail exactly when the    *)
(* request is out of bounds or the result would not be valid in the        *)
(* format (L0Try... return [ok, err, val]).                                *)
(* L1: the representations of tendril.rs -- inline (<= InlineMax bytes in  *)
(* the struct), owned (exclusive heap buffer, capacity in `aux`), shared   *)
(* (refcounted buffer, view offset in `aux`, capacity in the header) --    *)
(* and a heap of buffers [bytes, cap, rc, live]; every operation as the    *)
(* code performs it (make_buf_shared, make_owned(_with_capacity), grow to  *)
(* the next power of two >= MinCap, adjacent-shared merge in push_tendril, *)
(* inline results when they fit).  Real constants: InlineMax = 8,          *)
(* MinCap = 16; model checking uses 2 and 4.                               *)
(***************************************************************************)
EXTENDS Utf8, Integers, FiniteSets

CONSTANTS InlineMax, MinCap

-----------------------------------------------------------------------------
(* WTF-8 (generalized UTF-8): like UTF-8 but the surrogate code points U+D800..U+DFFF may be encoded   *)
(* (ED A0..BF xx) as long as a lead surrogate is never directly followed by a trail surrogate - such  *)
(* a pair is always written as the 4-byte encoding of the supplementary character it denotes.         *)
\* the generalized code point starting at i: [n |-> length (0 = ill-formed or truncated), k |-> "whole" | "lead" | "trail"]
GenAt(bs, i) ==
    LET b0 == bs[i]
        has(k) == i + k <= Len(bs)
        ct(k) == IsCont(bs[i + k])
        in(k, lo, hi) == bs[i + k] >= lo /\ bs[i + k] <= hi
        W(n) == [n |-> n, k |-> "whole"]
        Bad == [n |-> 0, k |-> "whole"] IN
    IF b0 < 128 THEN W(1)
    ELSE IF b0 >= 194 /\ b0 <= 223 THEN (IF has(1) /\ ct(1) THEN W(2) ELSE Bad)
    ELSE IF b0 = 224 THEN (IF has(2) /\ in(1, 160, 191) /\ ct(2) THEN W(3) ELSE Bad)
    ELSE IF b0 = 237 THEN
        IF ~(has(2) /\ ct(1) /\ ct(2)) THEN Bad
        ELSE IF bs[i + 1] <= 159 THEN W(3)
        ELSE IF bs[i + 1] <= 175 THEN [n |-> 3, k |-> "lead"] ELSE [n |-> 3, k |-> "trail"]
    ELSE IF b0 >= 225 /\ b0 <= 239 THEN (IF has(2) /\ ct(1) /\ ct(2) THEN W(3) ELSE Bad)
    ELSE IF b0 = 240 THEN (IF has(3) /\ in(1, 144, 191) /\ ct(2) /\ ct(3) THEN W(4) ELSE Bad)
    ELSE IF b0 >= 241 /\ b0 <= 243 THEN (IF has(3) /\ ct(1) /\ ct(2) /\ ct(3) THEN W(4) ELSE Bad)
    ELSE IF b0 = 244 THEN (IF has(3) /\ in(1, 128, 143) /\ ct(2) /\ ct(3) THEN W(4) ELSE Bad)
    ELSE Bad
RECURSIVE GenScan(_, _, _, _)
\* strict = TRUE: a lead surrogate directly followed by a trail surrogate is rejected (a whole WTF-8 string);
\* strict = FALSE: only the code point structure is checked (a slice of a valid string)
GenScan(bs, i, prevLead, strict) ==
    IF i > Len(bs) THEN TRUE
    ELSE LET g == GenAt(bs, i) IN
         IF g.n = 0 THEN FALSE
         ELSE IF strict /\ prevLead /\ g.k = "trail" THEN FALSE
         ELSE GenScan(bs, i + g.n, g.k = "lead", strict)
Wtf8Valid(bs) == GenScan(bs, 1, FALSE, TRUE)
GenWellFormed(bs) == GenScan(bs, 1, FALSE, FALSE)
\* concatenation in WTF-8: a lead surrogate ending the left part and a trail surrogate starting the right part
\* become the 4-byte encoding of the supplementary character
EndsWithLead(v) == Len(v) >= 3 /\ v[Len(v) - 2] = 237 /\ v[Len(v) - 1] >= 160 /\ v[Len(v) - 1] <= 175 /\ IsCont(v[Len(v)])
                   /\ GenWellFormed(v)
StartsWithTrail(b) == Len(b) >= 3 /\ b[1] = 237 /\ b[2] >= 176 /\ b[2] <= 191 /\ IsCont(b[3])
Wtf8Join(v, b) ==
    IF EndsWithLead(v) /\ StartsWithTrail(b) THEN
        LET hi == (v[Len(v) - 1] - 160) * 64 + (v[Len(v)] - 128)            \* 10 bits of the lead surrogate
            lo == (b[2] - 176) * 64 + (b[3] - 128)                         \* 10 bits of the trail surrogate
            cp == 65536 + hi * 1024 + lo IN
        SubSeq(v, 1, Len(v) - 3) \o Utf8Enc(cp) \o SubSeq(b, 4, Len(b))
    ELSE v \o b

(* formats *)
Valid(f, b) == CASE f = "utf8" -> WellFormed(b)
                 [] f = "wtf8" -> Wtf8Valid(b)
                 [] f = "ascii" -> \A i \in DOMAIN b : b[i] <= 127
                 [] OTHER -> TRUE              \* bytes, latin1
\* a slice of a valid tendril may be taken iff it is itself valid in the format
\* (ASCII, Latin-1 and Bytes: always; UTF-8 / WTF-8: the cuts fall on character boundaries)
ValidSlice(f, b) == IF f = "utf8" THEN WellFormed(b) ELSE IF f = "wtf8" THEN GenWellFormed(b) ELSE TRUE
\* concatenation of two values of a format
Cat(f, v, b) == IF f = "wtf8" THEN Wtf8Join(v, b) ELSE v \o b

(* characters (formats with characters: UTF-8, ASCII, Latin-1) *)
\* the first character of a valid value: [cp, n] (n bytes)
FirstChar(f, v) == IF f = "utf8" THEN LET n == SeqLen(v[1]) IN [cp |-> Scalar(v, 1, n), n |-> n] ELSE [cp |-> v[1], n |-> 1]
CharBytes(f, cp) == IF f = "utf8" THEN Utf8Enc(cp) ELSE <<cp>>
CharOk(f, cp) == IF f = "utf8" THEN ~IsSurrogate(cp) /\ cp <= 1114111 ELSE IF f = "ascii" THEN cp <= 127 ELSE cp <= 255
\* the classes the harness's pop_front_char_run uses: 0 = ASCII letter, 1 = ASCII whitespace, 2 = anything else
CharClass(cp) == IF IsAsciiAlpha(cp) THEN 0 ELSE IF IsWsCr(cp) THEN 1 ELSE 2
RECURSIVE RunLen(_, _, _, _)
\* number of bytes of the maximal prefix (from byte i) whose characters all have class c
RunLen(f, v, i, c) ==
    IF i > Len(v) THEN Len(v)
    ELSE LET fc == FirstChar(f, SubSeq(v, i, Len(v))) IN
         IF CharClass(fc.cp) # c THEN i - 1 ELSE RunLen(f, v, i + fc.n, c)

-----------------------------------------------------------------------------
(* L0 *)
Ok(v) == [ok |-> TRUE, err |-> "", val |-> v]
Err(e) == [ok |-> FALSE, err |-> e, val |-> <<>>]

L0TryPush(f, v, b) == IF Valid(f, b) THEN Ok(Cat(f, v, b)) ELSE Err("invalid")
L0TrySub(f, v, off, len) ==
    IF off > Len(v) \/ len > Len(v) - off THEN Err("oob")
    ELSE IF ~ValidSlice(f, SubSeq(v, off + 1, off + len)) THEN Err("validation")
    ELSE Ok(SubSeq(v, off + 1, off + len))
L0TryPopFront(f, v, n) ==
    IF n = 0 THEN Ok(v)
    ELSE IF n > Len(v) THEN Err("oob")
    ELSE IF ~ValidSlice(f, Drop(v, n)) THEN Err("validation")
    ELSE Ok(Drop(v, n))
L0TryPopBack(f, v, n) ==
    IF n = 0 THEN Ok(v)
    ELSE IF n > Len(v) THEN Err("oob")
    ELSE IF ~ValidSlice(f, Take(v, Len(v) - n)) THEN Err("validation")
    ELSE Ok(Take(v, Len(v) - n))
L0TryFrom(f, b) == IF Valid(f, b) THEN Ok(b) ELSE Err("invalid")

-----------------------------------------------------------------------------
(* L1 representation *)
NoT == [k |-> "none", b |-> <<>>, buf |-> 0, off |-> 0, len |-> 0]
InlineT(b) == [k |-> "inline", b |-> b, buf |-> 0, off |-> 0, len |-> Len(b)]
OwnedT(buf, len) == [k |-> "owned", b |-> <<>>, buf |-> buf, off |-> 0, len |-> len]
SharedT(buf, off, len) == [k |-> "shared", b |-> <<>>, buf |-> buf, off |-> off, len |-> len]

View(heap, t) ==
    CASE t.k = "inline" -> t.b
      [] t.k = "owned" -> Take(heap[t.buf].bytes, t.len)
      [] t.k = "shared" -> SubSeq(heap[t.buf].bytes, t.off + 1, t.off + t.len)
      [] OTHER -> <<>>

RECURSIVE Pow2AtLeast(_, _)
Pow2AtLeast(n, p) == IF p >= n THEN p ELSE Pow2AtLeast(n, 2 * p)

\* state of the L1 machine: [heap, ts] (ts: pool of tendrils); operations return the new state
NewBuf(heap, bytes, cap) == Append(heap, [bytes |-> bytes, cap |-> cap, rc |-> 1, live |-> TRUE])

\* owned_copy(x): Buf32::with_capacity(len) (at least MinCap)
OwnedCopy(heap, x) ==
    LET h1 == NewBuf(heap, x, MaxN(Len(x), MinCap)) IN [heap |-> h1, t |-> OwnedT(Len(h1), Len(x))]

FromBytes(heap, x) == IF Len(x) <= InlineMax THEN [heap |-> heap, t |-> InlineT(x)] ELSE OwnedCopy(heap, x)

\* Drop for Tendril
DropT(heap, t) ==
    IF t.k = "owned" THEN [heap EXCEPT ![t.buf].live = FALSE, ![t.buf].rc = 0]
    ELSE IF t.k = "shared" THEN
        IF heap[t.buf].rc = 1 THEN [heap EXCEPT ![t.buf].live = FALSE, ![t.buf].rc = 0]
        ELSE [heap EXCEPT ![t.buf].rc = @ - 1]
    ELSE heap

\* make_buf_shared: owned -> shared (capacity moves to the header, offset 0)
MakeShared(t) == IF t.k = "owned" THEN SharedT(t.buf, 0, t.len) ELSE t

\* make_owned: inline or shared -> fresh exclusive copy (the old reference is dropped)
MakeOwned(heap, t) ==
    IF t.k = "owned" THEN [heap |-> heap, t |-> t]
    ELSE LET v == View(heap, t)
             c == OwnedCopy(heap, v) IN
         [heap |-> DropT(c.heap, t), t |-> c.t]

\* make_owned_with_capacity(cap): make_owned, then grow to the next power of two if too small
MakeOwnedCap(heap, t, cap) ==
    LET o == MakeOwned(heap, t)
        b == o.t.buf
        \* owned buffers hold exactly the view's bytes as initialised content
        h1 == [o.heap EXCEPT ![b].bytes = Take(@, o.t.len)] IN
    IF cap <= h1[b].cap THEN [heap |-> h1, t |-> o.t]
    ELSE [heap |-> [h1 EXCEPT ![b].cap = Pow2AtLeast(cap, 1)], t |-> o.t]

\* push_bytes_without_validating (no fix-up: Bytes/ASCII/Latin1/UTF8)
PushBytes(heap, t, x) ==
    LET v == View(heap, t)
        newLen == Len(v) + Len(x) IN
    IF newLen <= InlineMax THEN [heap |-> DropT(heap, t), t |-> InlineT(v \o x)]
    ELSE LET o == MakeOwnedCap(heap, t, newLen)
             b == o.t.buf IN
         [heap |-> [o.heap EXCEPT ![b].bytes = Take(@, o.t.len) \o x], t |-> OwnedT(b, newLen)]

\* push_tendril: adjacent views of the same shared buffer are merged without copying
PushTendril(heap, t, o) ==
    IF t.k = "shared" /\ o.k = "shared" /\ t.buf = o.buf /\ o.off = t.off + t.len
    THEN [heap |-> heap, t |-> SharedT(t.buf, t.off, t.len + o.len)]
    ELSE PushBytes(heap, t, View(heap, o))

\* unsafe_subtendril
SubT(heap, t, off, len) ==
    IF len <= InlineMax THEN [heap |-> heap, t |-> t, r |-> InlineT(SubSeq(View(heap, t), off + 1, off + len))]
    ELSE LET s == MakeShared(t) IN
         [heap |-> [heap EXCEPT ![s.buf].rc = @ + 1], t |-> s, r |-> SharedT(s.buf, s.off + off, len)]

\* unsafe_pop_front / unsafe_pop_back
PopFront(heap, t, n) ==
    LET v == View(heap, t)
        newLen == Len(v) - n IN
    IF newLen <= InlineMax THEN [heap |-> DropT(heap, t), t |-> InlineT(Drop(v, n))]
    ELSE LET s == MakeShared(t) IN [heap |-> heap, t |-> SharedT(s.buf, s.off + n, s.len - n)]
PopBack(heap, t, n) ==
    LET v == View(heap, t)
        newLen == Len(v) - n IN
    IF newLen <= InlineMax THEN [heap |-> DropT(heap, t), t |-> InlineT(Take(v, newLen))]
    ELSE LET s == MakeShared(t) IN [heap |-> heap, t |-> SharedT(s.buf, s.off, s.len - n)]

\* Clone
CloneT(heap, t) ==
    IF t.k \in {"inline", "none"} THEN [heap |-> heap, t |-> t, r |-> t]
    ELSE LET s == MakeShared(t) IN [heap |-> [heap EXCEPT ![s.buf].rc = @ + 1], t |-> s, r |-> s]

\* clear
ClearT(heap, t) ==
    IF t.k = "inline" THEN [heap |-> heap, t |-> InlineT(<<>>)]
    ELSE IF t.k = "shared" THEN [heap |-> DropT(heap, t), t |-> InlineT(<<>>)]
    ELSE [heap |-> heap, t |-> OwnedT(t.buf, 0)]

\* DerefMut write of one byte (as_mut_byte_slice: copy-on-write for shared views)
WriteByte(heap, t, i, x) ==
    IF t.k = "inline" THEN [heap |-> heap, t |-> InlineT([t.b EXCEPT ![i] = x])]
    ELSE LET o == MakeOwned(heap, t) IN
         [heap |-> [o.heap EXCEPT ![o.t.buf].bytes = [@ EXCEPT ![i] = x]], t |-> o.t]

-----------------------------------------------------------------------------
(* heap invariants (C12) *)
Viewers(ts, b) == {i \in DOMAIN ts : ts[i].k \in {"owned", "shared"} /\ ts[i].buf = b}
HeapOk(heap, ts) ==
    \A b \in DOMAIN heap :
        /\ (heap[b].live => heap[b].rc = Cardinality(Viewers(ts, b)) /\ heap[b].rc >= 1)      \* refcount = number of views
        /\ (~heap[b].live => Viewers(ts, b) = {})                                             \* freed only after the last user
        /\ (\E i \in Viewers(ts, b) : ts[i].k = "owned") => Cardinality(Viewers(ts, b)) = 1    \* an owned buffer has one owner
        /\ \A i \in Viewers(ts, b) : ts[i].off + ts[i].len <= Len(heap[b].bytes) /\ Len(heap[b].bytes) <= heap[b].cap
=============================================================================
