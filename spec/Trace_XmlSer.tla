----------------------------- MODULE Trace_XmlSer -----------------------------
(* C17 judge: the tree produced by the real XML parser, serialized by the real XML serializer *)
(* and parsed again, is the same tree: element/attribute local names, prefixes and namespace  *)
(* URIs, attribute values, text, comments, processing instructions (doctype ids excluded).     *)
EXTENDS Chars, TLC, Json, IOUtils
Rec == ndJsonDeserialize(IOEnv.TRACE)
VARIABLES l
Init == l = 1
Judge(e) == e.panic = <<>> /\ e.t1 = e.t2
Next == /\ l <= Len(Rec) /\ l' = l + 1
        /\ (Judge(Rec[l]) \/ PrintT(<<"REJECT", l, Rec[l].case>>))
Spec == Init /\ [][Next]_l
AllConsumed == \/ TLCGet("stats").diameter = Len(Rec) + 1
               \/ PrintT(<<"NOT-CONSUMED", TLCGet("stats").diameter, Len(Rec)>>) /\ FALSE
=============================================================================
