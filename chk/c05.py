"""C05 - tree builders honour the documented TreeSink calling contract."""
from . import core
from .sinkcommon import run_sink_property

RULE = ("Every sink call of real HTML parses and of real xml5ever parses (XML soup and structured namespace-rich documents); HTML:  (vocabulary-family enumerations of tag soup as documents and as fragments "
        "under 46 context elements, both scripting settings; random tag soup) is logged by a monitoring sink and "
        "replayed by TLC on the abstract Dom specification, whose operations are enabled only under the documented "
        "contract: element-only operations on elements of the right kind, append of parent-less nodes, no insertion "
        "under itself/descendant (host-including), doctype at most once before any element, distinct attribute names.")


def run(tier, seed, replay=None):
    N = core.NCPU
    q = tier == "quick"
    plans = [
        ("xml-soup", ["xml", "--mode", "sink", "--gen", "text", "--n", 1500 if q else 20000], N),
        ("xml-structured", ["xml", "--mode", "sink", "--n", 1500 if q else 20000], N),
        ("enum-families-k3", ["parse", "--mode", "enum", "--k", 3, "--pieces", 12 if q else 16], N),
        ("enum-families-k4", ["parse", "--mode", "enum", "--k", 4, "--pieces", 10], N * 2, "thorough"),
        ("random", ["parse", "--mode", "random", "--n", 1500 if q else 20000, "--maxpieces", 14], N),
    ]
    return run_sink_property("C05", RULE, tier, seed, replay, plans,
                             ["only the promises the property lists are judged; what a particular sink may additionally need "
                              "(e.g. that the reference sibling has a parent) is not",
                              "'same qualified name' is judged under both readings: no two attributes of a list agree in prefix:local, and "
                              "none agree in namespace + local name (what the XML tree builder de-duplicates by; for HTML parses the "
                              "two coincide)"],
                             mc=[("MC_Dom", "MC_Dom.tla", "MC_Dom.cfg", "MC_Dom_thorough.cfg")])
