SPECIFICATION Spec
CONSTANTS
  MaxPieces = 5
  DoExport = TRUE
INVARIANTS LabelIsSubstring NothingWithoutCharsetEq Export
CHECK_DEADLOCK FALSE
