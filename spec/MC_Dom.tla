------------------------------- MODULE MC_Dom -------------------------------
(***************************************************************************)
(* All sequences of TreeSink operations that respect the calling contract, *)
(* over a small pool of nodes (elements, a template, a comment) and one    *)
(* text string.  Invariants: the abstract DOM stays a forest with          *)
(* consistent parent/child links (so the contract is *sufficient* for a    *)
(* sink to stay consistent).  Each explored history is exported as a       *)
(* replay case applied to RcDom (C20).                                     *)
(***************************************************************************)
EXTENDS Dom, TLC, Json

CONSTANTS MaxNodes, MaxOps, DoExport
VARIABLES nodes, hist
vars == <<nodes, hist>>

S_div == <<100, 105, 118>>
TextA == <<97>>
Ids == 0..(Len(nodes) - 1)
Attr(l, v) == [ns |-> "", prefix |-> <<>>, local |-> <<l>>, v |-> <<v>>]

Ev(e) == hist' = Append(hist, e)

Init == nodes = InitNodes /\ hist = <<>>

ACreateEl == /\ Len(nodes) < MaxNodes
             /\ \E nm \in {S_div, S_template} :
                 /\ nodes' = CreateElement(nodes, "html", nm, <<Attr(120, 49)>>, nm = S_template)
                 /\ Ev([ev |-> "create_element", id |-> Len(nodes), ns |-> "html", local |-> nm, prefix |-> <<>>,
                        attrs |-> <<Attr(120, 49)>>, template |-> (nm = S_template), ip |-> FALSE, dup |-> FALSE])
ACreateComment == /\ Len(nodes) < MaxNodes
                  /\ nodes' = Create(nodes, MkNode("comment", "", <<>>, <<>>, TextA, <<>>))
                  /\ Ev([ev |-> "create_comment", id |-> Len(nodes), text |-> TextA])
CanParent(p) == N(nodes, p).k \in {"doc", "el", "frag"}
AAppendNode == \E p, c \in Ids : /\ c # 0 /\ CanParent(p) /\ N(nodes, c).k # "frag" /\ PreAppendNode(nodes, p, c)
                                /\ nodes' = AppendNodeTo(nodes, p, c)
                                /\ Ev([ev |-> "append", parent |-> p, k |-> "node", child |-> c, text |-> <<>>])
AAppendText == \E p \in Ids : /\ CanParent(p) /\ p # 0
                              /\ nodes' = AppendTextTo(nodes, p, TextA)
                              /\ Ev([ev |-> "append", parent |-> p, k |-> "text", child |-> 0, text |-> TextA])
AInsertNode == \E s, c \in Ids : /\ c # 0 /\ s # 0 /\ N(nodes, c).k # "frag" /\ N(nodes, s).parent # -1
                                /\ PreInsertNodeBefore(nodes, s, c)
                                /\ nodes' = InsertNodeBefore(nodes, s, c)
                                /\ Ev([ev |-> "append_before_sibling", sibling |-> s, k |-> "node", child |-> c, text |-> <<>>])
AInsertText == \E s \in Ids : /\ s # 0 /\ N(nodes, s).parent \notin {-1, 0}
                              /\ nodes' = InsertTextBefore(nodes, s, TextA)
                              /\ Ev([ev |-> "append_before_sibling", sibling |-> s, k |-> "text", child |-> 0, text |-> TextA])
ARemove == \E c \in Ids : /\ c # 0 /\ N(nodes, c).k # "frag"
                          /\ nodes' = Detach(nodes, c)
                          /\ Ev([ev |-> "remove_from_parent", target |-> c])
AReparent == \E a, b \in Ids : /\ a # b /\ CanParent(a) /\ CanParent(b) /\ b # 0 /\ PreReparent(nodes, a, b) /\ N(nodes, a).ch # <<>>
                              /\ nodes' = ReparentChildren(nodes, a, b)
                              /\ Ev([ev |-> "reparent_children", node |-> a, new_parent |-> b])
AAddAttrs == \E t \in Ids : /\ IsEl(nodes, t)
                            /\ \E at \in {<<Attr(120, 50), Attr(121, 51)>>} :
                                /\ nodes' = AddAttrsIfMissing(nodes, t, at)
                                /\ Ev([ev |-> "add_attrs_if_missing", target |-> t, attrs |-> at])
ATemplate == \E t \in Ids : /\ PreTemplateContents(nodes, t) /\ (N(nodes, t).tmpl >= 0 \/ Len(nodes) < MaxNodes)
                            /\ LET r == TemplateContents(nodes, t) IN
                               /\ nodes' = r.nodes
                               /\ Ev([ev |-> "get_template_contents", target |-> t, ret |-> r.ret])

Next == /\ Len(hist) < MaxOps
        /\ (ACreateEl \/ ACreateComment \/ AAppendNode \/ AAppendText \/ AInsertNode \/ AInsertText \/ ARemove
            \/ AReparent \/ AAddAttrs \/ ATemplate)
Spec == Init /\ [][Next]_vars
View == <<nodes, Len(hist)>>

Consistent == LinksConsistent(nodes)
\* acyclic: following parent/host links from any node reaches a root within |nodes| steps
RECURSIVE Depth(_, _)
Depth(x, fuel) == IF fuel = 0 THEN 0 - 1
                  ELSE LET n == N(nodes, x) IN
                       IF n.parent # -1 THEN Depth(n.parent, fuel - 1) ELSE IF n.host # -1 THEN Depth(n.host, fuel - 1) ELSE 0
Acyclic == \A x \in Ids : Depth(x, Len(nodes) + 1) = 0
\* every node appears at most once in all child lists
AtMostOneParent == \A x \in Ids : Cardinality({<<p, j>> \in Ids \X (1..(2 * MaxOps)) :
                                        j <= Len(N(nodes, p).ch) /\ N(nodes, p).ch[j] = NodeE(x)}) <= 1

Export == (DoExport /\ Len(hist) = MaxOps) => PrintT(<<"REPLAY", ToJson([ops |-> hist])>>)
=============================================================================
