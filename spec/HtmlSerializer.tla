---------------------------- MODULE HtmlSerializer ----------------------------
(***************************************************************************)
(* L0: the parts of the WHATWG HTML fragment serialization algorithm       *)
(* (13.3) that C07 speaks about: escaping a string (text / attribute       *)
(* mode), which parents take their text children verbatim, void elements.  *)
(***************************************************************************)
EXTENDS Chars

S(x) == x
AMPc == 38  LTc == 60  GTc == 62  QUOTc == 34  NBSPc == 160
E_amp == <<38, 97, 109, 112, 59>>         \* &amp;
E_lt == <<38, 108, 116, 59>>              \* &lt;
E_gt == <<38, 103, 116, 59>>              \* &gt;
E_quot == <<38, 113, 117, 111, 116, 59>>  \* &quot;
E_nbsp == <<38, 110, 98, 115, 112, 59>>   \* &nbsp;

\* "escaping a string": & -> &amp;, U+00A0 -> &nbsp;, < and > -> &lt; &gt; ; in attribute mode also " -> &quot;
RECURSIVE EscapeFrom(_, _, _, _)
EscapeFrom(s, i, attr, acc) ==
    IF i > Len(s) THEN acc
    ELSE LET c == s[i]
             r == CASE c = AMPc -> E_amp [] c = NBSPc -> E_nbsp [] c = LTc -> E_lt [] c = GTc -> E_gt
                    [] c = QUOTc /\ attr -> E_quot [] OTHER -> <<c>> IN
         EscapeFrom(s, i + 1, attr, acc \o r)
Escape(s, attr) == EscapeFrom(s, 1, attr, <<>>)

N_style == <<115, 116, 121, 108, 101>>  N_script == <<115, 99, 114, 105, 112, 116>>  N_xmp == <<120, 109, 112>>
N_iframe == <<105, 102, 114, 97, 109, 101>>  N_noembed == <<110, 111, 101, 109, 98, 101, 100>>
N_noframes == <<110, 111, 102, 114, 97, 109, 101, 115>>  N_plaintext == <<112, 108, 97, 105, 110, 116, 101, 120, 116>>
N_noscript == <<110, 111, 115, 99, 114, 105, 112, 116>>
\* parents whose text children are serialized literally: HTML elements only
RawTextParent(ns, local, scripting) ==
    ns = "html" /\ (local \in {N_style, N_script, N_xmp, N_iframe, N_noembed, N_noframes, N_plaintext}
                    \/ (local = N_noscript /\ scripting))

\* the text between the start tag and the end tag of an element's own serialization:
\* drop everything through the first '>' and the trailing "</name>"
FirstGt(s) == CHOOSE i \in 1..Len(s) : s[i] = GTc /\ \A j \in 1..(i - 1) : s[j] # GTc
Between(outer, local) ==
    LET i == FirstGt(outer)
        endlen == Len(local) + 3 IN
    SubSeq(outer, i + 1, Len(outer) - endlen)
EndsWithEndTag(outer, local) ==
    LET n == Len(local) + 3 IN
    /\ Len(outer) >= n
    /\ SubSeq(outer, Len(outer) - n + 1, Len(outer)) = <<LTc, 47>> \o local \o <<GTc>>
=============================================================================
