SPECIFICATION Spec
CONSTANTS
  Alphabet <- MC_Alphabet
  MaxBufLen = 3
  MaxQueueChars = 5
  Sets <- MC_Sets
  Pats <- MC_Pats
  DoExport = TRUE
INVARIANTS L1AgreesWithL0 NoEmpty Conservation
ACTION_CONSTRAINT ExportT
VIEW View
CHECK_DEADLOCK FALSE
