SPECIFICATION Spec
CONSTANTS
  MaxEvents = 4
  Defects = {"no_undeclare"}
INVARIANT EveryUsedPrefixDeclared
CHECK_DEADLOCK FALSE
