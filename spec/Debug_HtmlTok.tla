--------------------------- MODULE Debug_HtmlTok ---------------------------
(* development aid: print expected vs observed for the cases of a trace file *)
EXTENDS Trace_HtmlTok
ASSUME \A i \in 1..Len(Rec) : PrintT(<<"DBG", ToJson([case |-> Rec[i].case, state |-> Rec[i].cfg.state, inp |-> Flatten(Rec[i].chunks), exp |-> Expected(Rec[i]), got |-> Rec[i].toks])>>)
=============================================================================
