SPECIFICATION Spec
CONSTANTS
  InlineMax = 2
  MinCap = 4
  Slots = 3
  MaxLen = 6
  MaxOps = 5
  Fmt = "bytes"
  Pieces <- MC_BytePieces
  Offs <- MC_SmallOffs
  DoExport = FALSE
INVARIANTS ViewsAgree AlwaysValid ReprOk HeapInv NothingLeaks
VIEW ViewSt
CHECK_DEADLOCK FALSE
