SPECIFICATION Spec
CONSTANTS
  MaxEvents = 4
  Defects = {"end_pop_first"}
INVARIANT EveryUsedPrefixDeclared
CHECK_DEADLOCK FALSE
