//! C14: the finite character-reference domain.  Named: names come from the specification's table
//! (exported by TLC, read from stdin as {"name":[cp..]}), expanded here into variants x follower
//! classes x contexts.  Numeric: every value 0..=0x110000 in both bases, batched, plus digit-count
//! and overflow forms.
use crate::tok::*;
use crate::util::*;
use serde_json::{json, Value};

const FOLLOWERS: &[&str] = &["", ";", "=", "1", "z", "Z", " ", "<", "&", "\"", "'", "\r", "\u{e9}", "#", ">", "x;"];

fn ctx_case(ctx: usize, text: &str) -> Value {
    let (state, s) = match ctx {
        0 => ("Data", text.to_string()),
        1 => ("RawData.Rcdata", text.to_string()),
        2 => ("Data", format!("<a b=\"{}\">", text)),
        3 => ("Data", format!("<a b='{}'>", text)),
        4 => ("Data", format!("<a b={}>", text)),
        5 => ("Data", format!("<a b=\"{}", text)), // EOF inside the value
        _ => ("Data", format!("<a b={} c>", text)),
    };
    json!({"state":state,"last":[],"cdata":false,"rs":"none","chunks":[cps(&s)],"exact":false,"bom":false,"inject":[]})
}

pub fn main(args: &Args) {
    let mut out = Out::new();
    let fields = args.get("fields").unwrap_or("").to_string();
    let shard = args.num("shard", 0);
    let shards = args.num("shards", 1).max(1);
    let mut id = 0u64;
    let mut n = 0u64;
    let xml = args.has("xml");
    let mut emit = |c: Value, out: &mut Out| {
        n += 1;
        if n % shards != shard {
            return;
        }
        if xml {
            // xml5ever shares the character-reference rules: the reference text T (taken back out of the HTML case) goes into
            // <r>T</r> and <r a="T"/> / <r a='T'/>; text that would end the context is left out
            let full = from_cps(&c["chunks"][0]);
            let t = match (full.find("b=\""), full.find("b='"), full.find("b=")) {
                (Some(i), _, _) => full[i + 3..].trim_end_matches("\">").to_string(),
                (_, Some(i), _) => full[i + 3..].trim_end_matches("'>").to_string(),
                (_, _, Some(i)) => full[i + 2..].trim_end_matches(" c>").trim_end_matches('>').to_string(),
                _ => full.clone(),
            };
            if t.contains('<') || t.contains('"') || t.contains('\'') || t.contains('\r') || t.contains('>') || t.contains('\0') {
                return;
            }
            for (attr, doc) in [(false, format!("<r>{}</r>", t)), (true, format!("<r a=\"{}\"/>", t)), (true, format!("<r a='{}'/>", t))] {
                id += 1;
                let xo = crate::xmlh::run_xml_opts(&[doc], false, false, false, false, false);
                let mut got = String::new();
                for e in &xo.events {
                    if e["ev"] == "token" {
                        if !attr && e["tok"]["k"] == "chars" {
                            got.push_str(&from_cps(&e["tok"]["s"]));
                        }
                        if attr && (e["tok"]["k"] == "empty" || e["tok"]["k"] == "start") {
                            if let Some(a) = e["tok"]["attrs"].as_array().and_then(|a| a.first()) {
                                got.push_str(&from_cps(&a["v"]));
                            }
                        }
                    }
                }
                out.line(&json!({"ev":"xcr","case":id,"x":cps(&t),"attr":attr,"got":cps(&got),
                                 "panic": match &xo.panic { Some(m) => json!([cps(m)]), None => json!([]) }}));
            }
            return;
        }
        id += 1;
        let rr = run_tok(&c);
        out.line(&case_line(&c, id, &rr, &fields));
    };
    if xml && args.has("replay") {
        // recorded xml cases: {"x": text, "attr": bool}; both quoting styles are re-run for attributes
        let mut id = 0u64;
        for c in read_cases() {
            if c["ev"] != "xcr" {
                continue;
            }
            let t = from_cps(&c["x"]);
            let attr = c["attr"].as_bool().unwrap_or(false);
            let docs = if attr { vec![format!("<r a=\"{}\"/>", t), format!("<r a='{}'/>", t)] } else { vec![format!("<r>{}</r>", t)] };
            for doc in docs {
                id += 1;
                let xo = crate::xmlh::run_xml_opts(&[doc], false, false, false, false, false);
                let mut got = String::new();
                for e in &xo.events {
                    if e["ev"] == "token" {
                        if !attr && e["tok"]["k"] == "chars" {
                            got.push_str(&from_cps(&e["tok"]["s"]));
                        }
                        if attr && (e["tok"]["k"] == "empty" || e["tok"]["k"] == "start") {
                            if let Some(a) = e["tok"]["attrs"].as_array().and_then(|a| a.first()) {
                                got.push_str(&from_cps(&a["v"]));
                            }
                        }
                    }
                }
                out.line(&json!({"ev":"xcr","case":id,"x":cps(&t),"attr":attr,"got":cps(&got),
                                 "panic": match &xo.panic { Some(m) => json!([cps(m)]), None => json!([]) }}));
            }
        }
        out.flush();
        return;
    }
    match args.get("part").unwrap_or("named") {
        "named" => {
            let quick = args.has("quick");
            for c in read_cases() {
                let name = from_cps(&c["name"]);
                let mut variants = vec![name.clone()];
                // truncated by one character (drops the ';', or the last letter)
                let mut t = name.clone();
                t.pop();
                variants.push(t);
                if name.ends_with(';') {
                    // the same without ';' and one letter shorter
                    let mut t2 = name.clone();
                    t2.pop();
                    t2.pop();
                    variants.push(t2);
                    // case-flipped first letter
                    let mut ch: Vec<char> = name.chars().collect();
                    ch[0] = if ch[0].is_ascii_lowercase() { ch[0].to_ascii_uppercase() } else { ch[0].to_ascii_lowercase() };
                    variants.push(ch.into_iter().collect());
                }
                for (vi, v) in variants.iter().enumerate() {
                    for (fi, fo) in FOLLOWERS.iter().enumerate() {
                        for ctx in 0..7 {
                            if quick && !((vi < 2) && (fi < 7 || fi == 11) && ctx < 5) {
                                continue;
                            }
                            emit(ctx_case(ctx, &format!("&{}{}", v, fo)), &mut out);
                        }
                    }
                }
            }
        },
        _ => {
            // numeric: batches of 64 consecutive values
            let quick = args.has("quick");
            let step = if quick { 16 } else { 1 }; // quick: every 16th batch + all boundary batches
            let boundaries: Vec<u32> = vec![0, 0x80, 0x9f, 0xd800, 0xdfff, 0xe000, 0xfdd0, 0xfdef, 0xfffe, 0x10000, 0x1fffe, 0x10fffe, 0x110000];
            let mut b = 0u32;
            let mut bi = 0u32;
            while b <= 0x110000 {
                let near = boundaries.iter().any(|x| (*x as i64 - b as i64).abs() <= 64 || (*x >= b && *x < b + 64));
                if bi % step == 0 || near || (b % 0x10000) < 128 || (b % 0x10000) >= 0xff80 {
                    for form in 0..6 {
                        let mut s = String::new();
                        for v in b..(b + 64).min(0x110001) {
                            match form {
                                0 => s.push_str(&format!("&#{};", v)),
                                1 => s.push_str(&format!("&#x{:x};", v)),
                                2 => s.push_str(&format!("&#X{:X} ", v)),
                                3 => s.push_str(&format!("&#{}|", v)),
                                4 => s.push_str(&format!("&#000{};", v)),
                                _ => s.push_str(&format!("&#x0000000{:X};", v)),
                            }
                        }
                        let ctx = match form { 0 | 1 => 0, 2 => 1, 3 => 2, 4 => 3, _ => 0 };
                        if quick && form >= 4 && !near {
                            continue;
                        }
                        emit(ctx_case(ctx, &s), &mut out);
                    }
                }
                b += 64;
                bi += 1;
            }
            // digit-count / overflow / degenerate forms
            let specials = [
                "&#", "&#;", "&#x", "&#x;", "&#X", "&#xg", "&#a", "&#-1;", "&# 1;", "&#1", "&#x1", "&#1114111;", "&#1114112;",
                "&#4294967295;", "&#4294967296;", "&#4294967361;", "&#x100000041;", "&#xFFFFFFFF;", "&#x10000000041;",
                "&#99999999999999999999;", "&#x110000;", "&#x10FFFF;", "&#x10FFFE", "&#65", "&#65x", "&#x41g", "&#0065;",
                "&#x000000000000000000041;", "&#18446744073709551681;", "&#x1000000000000000041;", "&#128;", "&#x80",
                "&#159;", "&#129;", "&#13;", "&#10;", "&#x0D", "&#xD800;", "&#xDFFF;", "&#xFFFE;", "&#xFDD0;", "&#11;", "&#127;",
            ];
            for s in specials {
                for fo in ["", ";", "a", "1", " ", "<", "&#65;"] {
                    for ctx in 0..7 {
                        emit(ctx_case(ctx, &format!("{}{}", s, fo)), &mut out);
                    }
                }
            }
        },
    }
    out.flush();
}
