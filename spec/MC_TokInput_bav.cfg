SPECIFICATION Spec
CONSTANTS
  Defects = {}
  MaxPieces = 4
  MaxFeeds = 3
  PieceSet <- MC_PiecesBav
  StartSet <- MC_StartsBav
  Injects <- MC_NoInjects
  BomOpts = {FALSE}
INVARIANTS TokensRefine LineInv SameAsOnePiece
CHECK_DEADLOCK FALSE
