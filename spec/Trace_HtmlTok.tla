--------------------------- MODULE Trace_HtmlTok ---------------------------
(***************************************************************************)
(* Judge of recorded runs of the real HTML tokenizer (C01, C14): for the   *)
(* logged configuration and input, the delivered tokens (errors dropped,   *)
(* adjacent character tokens concatenated) must equal the WHATWG           *)
(* tokenization (L0 HtmlTokenizer) of the CR-normalised input.             *)
(***************************************************************************)
EXTENDS HtmlTokenizer, Preprocess, TLC, Json, IOUtils

Rec == ndJsonDeserialize(IOEnv.TRACE)
VARIABLES l
Init == l = 1

N(s) == [i \in 1..Len(s) |-> s[i]]   \* identity; documents that names are code-point sequences
StdReplies ==
    << [k |-> "start", name |-> <<116, 105, 116, 108, 101>>, r |-> "rcdata"],
       [k |-> "start", name |-> <<116, 101, 120, 116, 97, 114, 101, 97>>, r |-> "rcdata"],
       [k |-> "start", name |-> <<115, 116, 121, 108, 101>>, r |-> "rawtext"],
       [k |-> "start", name |-> <<120, 109, 112>>, r |-> "rawtext"],
       [k |-> "start", name |-> <<115, 99, 114, 105, 112, 116>>, r |-> "script_data"],
       [k |-> "start", name |-> <<112, 108, 97, 105, 110, 116, 101, 120, 116>>, r |-> "plaintext"],
       [k |-> "end", name |-> <<115, 99, 114, 105, 112, 116>>, r |-> "script"] >>

CfgOf(e) == [state |-> e.cfg.state, last |-> e.cfg.last, cdata |-> e.cfg.cdata,
             replies |-> IF e.cfg.rs = "std" THEN StdReplies ELSE <<>>]

Expected(e) == StripAll(Tokenize(CfgOf(e), Normalize(Flatten(e.chunks))))

Judge(e) == /\ e.panic = <<>>
            /\ e.toks = Expected(e)

Next == /\ l <= Len(Rec)
        /\ l' = l + 1
        /\ (Judge(Rec[l]) \/ PrintT(<<"REJECT", l, Rec[l].case>>))

Spec == Init /\ [][Next]_l
AllConsumed == \/ TLCGet("stats").diameter = Len(Rec) + 1
               \/ PrintT(<<"NOT-CONSUMED", TLCGet("stats").diameter, Len(Rec)>>) /\ FALSE
=============================================================================
