"""C09 - line numbers reported with tokens match the source."""
import os
from . import core
from .core import Run, WORK

RULE = ("Real tokenizer runs with a recording sink that logs, for every token (unmerged, parse errors included), the line "
        "number passed to the sink and the number of input characters consumed from the harness-owned queue; inputs: "
        "piece strings rich in CR/LF/CRLF from every start state and after deep-state prefixes under ALL chunkings "
        "(short) or every single cut + all-1-char + random cuts (long), and random Unicode strings.  TLC judges each "
        "token: line = 1 + Breaks(raw[1..consumed]) (Preprocess!Breaks: LF, CR, CRLF once); EOF must have consumed "
        "the whole input.")
SPEC, CFG = "Trace_Lines.tla", "Trace_Lines.cfg"


def classify(f, objs):
    return False


def run(tier, seed, replay=None):
    r = Run("C09", tier, seed)
    core.build_harness()
    if replay:
        meta, lines = core.load_replay(replay)
        src = os.path.join(WORK, "traces", "C09-replay-in.ndjson")
        with open(src, "w") as f:
            f.write("\n".join(lines) + "\n")
        r.gen_validate("replay", ["tok", "--replay", "--fields", "raw"], SPEC, CFG, 1, classify, core.count_lines, stdin_files=[src])
        return r.finish(RULE, write=False)
    quick = tier == "quick"
    N = core.NCPU
    # the line-counting model is part of the tokenizer input-layer model; its bounded check lives in MC_TokInput (C03)
    res = core.tlc_mc("C09-mc", "MC_Lines.tla", "MC_Lines.cfg" if quick else "MC_Lines_thorough.cfg", timeout=3000)
    r.add_mc("MC_Lines", res)
    F = ["--fields", "raw"]
    r.gen_validate("enum-lines-k2-allchunk", ["tok", "--mode", "enum", "--pset", "lines", "--k", 2, "--chunk", "all"] + F,
                   SPEC, CFG, N, classify, core.count_lines, timeout=3000)
    r.gen_validate("prefixed-lines-k2", ["tok", "--mode", "prefixed", "--pset", "lines", "--k", 2, "--chunk", "some"] + F,
                   SPEC, CFG, N, classify, core.count_lines, timeout=3000)
    r.gen_validate("stride", ["tok", "--mode", "stride", "--chunk", "some"] + F, SPEC, CFG, 4, classify, core.count_lines)
    r.gen_validate("random", ["tok", "--mode", "random", "--n", 600 if quick else 6000, "--maxlen", 60, "--chunk", "some"] + F,
                   SPEC, CFG, N, classify, core.count_lines, timeout=3000)
    if not quick:
        r.gen_validate("enum-lines-k3", ["tok", "--mode", "enum", "--pset", "lines", "--k", 3, "--pieces", 14, "--chunk", "all"] + F,
                       SPEC, CFG, N * 4, classify, core.count_lines, timeout=6000, xmx="4g")
        r.gen_validate("prefixed-lines-k3", ["tok", "--mode", "prefixed", "--pset", "lines", "--k", 3, "--pieces", 14, "--chunk", "some"] + F,
                       SPEC, CFG, N * 4, classify, core.count_lines, timeout=6000, xmx="4g")
    r.assumptions = [
        "consumed = characters fed minus characters left in the harness-owned BufferQueue at the moment of emission; parse-error "
        "tokens emitted by the character-reference sub-tokenizer while it holds look-ahead that it pushes back are judged "
        "against the interval between the previous token's position and that bound",
        "set_current_line forwarding by the tree builder is checked in the parser harness (C02/C03 traces)"]
    return r.finish(RULE)
