SPECIFICATION Spec
CONSTANTS
  MaxToks = 3
  VocabIdx = {9, 10, 11, 12, 13, 14, 15, 16, 17, 18, 19, 20, 2, 4, 47, 50, 21}
  CtxIdx = {1, 3, 4}
  Scripting = TRUE
  DoExport = TRUE
INVARIANTS Structure Ark TemplateModes AtEof FragEof Export
CHECK_DEADLOCK FALSE
