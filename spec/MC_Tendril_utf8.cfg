SPECIFICATION Spec
CONSTANTS
  InlineMax = 2
  MinCap = 4
  Slots = 3
  MaxLen = 6
  MaxOps = 5
  Fmt = "utf8"
  Pieces <- MC_Utf8Pieces
  Offs <- MC_SmallOffs
  DoExport = FALSE
INVARIANTS ViewsAgree AlwaysValid ReprOk HeapInv NothingLeaks
VIEW ViewSt
CHECK_DEADLOCK FALSE
