------------------------------ MODULE Trace_Enc ------------------------------
(***************************************************************************)
(* Judge of recorded LossyDecoder (encoding_rs) runs: the pieces delivered *)
(* under any chunking, concatenated, equal the logged one-shot lossy       *)
(* decode of the whole input (the property's own oracle; the conversion    *)
(* tables are an input to the specification, not part of it).              *)
(***************************************************************************)
EXTENDS LossyWrapper, TLC, Json, IOUtils

Rec == ndJsonDeserialize(IOEnv.TRACE)
VARIABLES l
Init == l = 1

\* the recorded loop iterations (hook H5) must follow the L1 loop protocol; a mismatch alone
\* is model drift (reported, not a verdict): the verdict is the property's own oracle below
Judge(e) == /\ (e.utf8path \/ ProtocolOK(e.evs) \/ PrintT(<<"MODEL-DRIFT", l, e.case>>))
            /\ e.panic = <<>>
            /\ Flatten(e.pieces) = e.oneshot

Next == /\ l <= Len(Rec)
        /\ l' = l + 1
        /\ (Judge(Rec[l]) \/ PrintT(<<"REJECT", l, Rec[l].case>>))

Spec == Init /\ [][Next]_l
AllConsumed == \/ TLCGet("stats").diameter = Len(Rec) + 1
               \/ PrintT(<<"NOT-CONSUMED", TLCGet("stats").diameter, Len(Rec)>>) /\ FALSE
=============================================================================
