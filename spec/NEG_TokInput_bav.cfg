SPECIFICATION Spec
CONSTANTS
  Defects = {"raw_newlines_before_attr_value"}
  MaxPieces = 3
  MaxFeeds = 3
  PieceSet <- MC_PiecesQuick
  StartSet <- MC_StartsQuick
  Injects <- MC_NoInjects
  BomOpts = {FALSE}
INVARIANTS LineInv
CHECK_DEADLOCK FALSE
