//! Shared helpers: RNG, JSON conventions (text = arrays of code points), case I/O.
use serde_json::{json, Value};
use std::io::{BufRead, Write};

pub struct Rng(pub u64);
impl Rng {
    pub fn new(seed: u64) -> Rng {
        // scramble the seed: consecutive seeds must not give the same stream shifted by one step
        let mut z = seed.wrapping_add(0x1234567).wrapping_mul(0xD6E8FEB86659FD93);
        z = (z ^ (z >> 32)).wrapping_mul(0xD6E8FEB86659FD93);
        z = (z ^ (z >> 29)).wrapping_mul(0xBF58476D1CE4E5B9);
        Rng(z ^ (z >> 32))
    }
    pub fn next(&mut self) -> u64 {
        self.0 = self.0.wrapping_add(0x9E3779B97F4A7C15);
        let mut z = self.0;
        z = (z ^ (z >> 30)).wrapping_mul(0xBF58476D1CE4E5B9);
        z = (z ^ (z >> 27)).wrapping_mul(0x94D049BB133111EB);
        z ^ (z >> 31)
    }
    pub fn below(&mut self, n: usize) -> usize {
        if n == 0 {
            0
        } else {
            (self.next() % (n as u64)) as usize
        }
    }
    pub fn chance(&mut self, num: usize, den: usize) -> bool {
        self.below(den) < num
    }
    pub fn pick<'a, T>(&mut self, xs: &'a [T]) -> &'a T {
        &xs[self.below(xs.len())]
    }
}

pub fn cps(s: &str) -> Value {
    Value::Array(s.chars().map(|c| json!(c as u32)).collect())
}
pub fn cps_bytes(b: &[u8]) -> Value {
    Value::Array(b.iter().map(|c| json!(*c as u32)).collect())
}
pub fn from_cps(v: &Value) -> String {
    v.as_array()
        .map(|a| {
            a.iter()
                .map(|x| char::from_u32(x.as_u64().unwrap_or(0xFFFD) as u32).unwrap_or('\u{fffd}'))
                .collect()
        })
        .unwrap_or_default()
}
pub fn bytes_from(v: &Value) -> Vec<u8> {
    v.as_array()
        .map(|a| a.iter().map(|x| x.as_u64().unwrap_or(0) as u8).collect())
        .unwrap_or_default()
}

pub struct Out {
    w: std::io::BufWriter<Box<dyn Write>>,
}
impl Out {
    /// Trace output goes to the file named by VH_OUT (so that anything the code under test
    /// prints on stdout, e.g. the tokenizer profile, cannot corrupt it), else to stdout.
    pub fn new() -> Out {
        let sink: Box<dyn Write> = match std::env::var("VH_OUT") {
            Ok(p) if !p.is_empty() => Box::new(std::fs::File::create(p).expect("cannot create VH_OUT")),
            _ => Box::new(std::io::stdout()),
        };
        Out { w: std::io::BufWriter::with_capacity(1 << 20, sink) }
    }
    pub fn line(&mut self, v: &Value) {
        serde_json::to_writer(&mut self.w, v).unwrap();
        self.w.write_all(b"\n").unwrap();
    }
    pub fn flush(&mut self) {
        self.w.flush().unwrap();
    }
}

pub fn read_cases() -> Vec<Value> {
    let stdin = std::io::stdin();
    let mut v = Vec::new();
    for line in stdin.lock().lines() {
        let line = line.unwrap();
        let t = line.trim();
        if t.is_empty() {
            continue;
        }
        v.push(serde_json::from_str(t).expect("bad case json"));
    }
    v
}

/// Simple `--key value` argument lookup.
pub struct Args(pub Vec<String>);
impl Args {
    pub fn get(&self, k: &str) -> Option<&str> {
        let key = format!("--{}", k);
        self.0.iter().position(|a| *a == key).and_then(|i| self.0.get(i + 1)).map(|s| s.as_str())
    }
    pub fn num(&self, k: &str, d: u64) -> u64 {
        self.get(k).and_then(|s| s.parse().ok()).unwrap_or(d)
    }
    pub fn has(&self, k: &str) -> bool {
        let key = format!("--{}", k);
        self.0.iter().any(|a| *a == key)
    }
}

/// Run `f`, turning a panic into Err(message).
pub fn catch<T>(f: impl FnOnce() -> T) -> Result<T, String> {
    match std::panic::catch_unwind(std::panic::AssertUnwindSafe(f)) {
        Ok(v) => Ok(v),
        Err(e) => Err(if let Some(s) = e.downcast_ref::<&str>() {
            s.to_string()
        } else if let Some(s) = e.downcast_ref::<String>() {
            s.clone()
        } else {
            "panic".to_string()
        }),
    }
}
