//! Case generators and trace output for the HTML parser harness.
use crate::parse::*;
use crate::tokgen::{chunkings, random_text};
use crate::util::*;
use serde_json::{json, Value};

pub const FAMILIES: &[(&str, &[&str])] = &[
    ("format", &["<a>", "<b>", "<i>", "<nobr>", "<p>", "<div>", "x", "</a>", "</b>", "</i>", "</p>", "</div>", " ", "<a href=u>", "<b id=q>"]),
    ("table", &["<table>", "<caption>", "<colgroup>", "<col>", "<tbody>", "<tr>", "<td>", "<th>", "x", " ", "<input type=hidden>", "<input>",
                "<form>", "</table>", "</tr>", "</td>", "</tbody>", "<div>", "</caption>", "<thead>", "<tfoot>", "<style>", "</style>", "<b>", "</form>", "<select>"]),
    ("template", &["<template>", "</template>", "<div>", "<td>", "<tr>", "<col>", "x", "<table>", "</table>", "<body>", "<head>", "<html>", "<tbody>", "<caption>", "<frameset>", "<select>", "<option>"]),
    ("select", &["<select>", "<option>", "<optgroup>", "<hr>", "<input>", "</select>", "</option>", "</optgroup>", "x", "<textarea>", "<keygen>",
                 "<selectedcontent>", "<div>", "<option selected>", "<button>", "</button>", "<select multiple>", "</selectedcontent>", "<p>", "<table>", "<td>"]),
    ("head", &["<html>", "<head>", "</head>", "<body>", "</body>", "</html>", "<frameset>", "</frameset>", "<frame>", "<noframes>", "</noframes>",
               "<noscript>", "</noscript>", "<meta>", "<meta charset=utf-8>", "<title>", "</title>", "<link>", "<base>", "x", " ", "<!--c-->", "<!DOCTYPE html>", "<style>",
               "</style>", "<script>", "</script>", "<body a=b>", "<html c=d>", "<template>", "</template>", "<br>", "</br>", "<p>", "<table>"]),
    ("foreign", &["<svg>", "<math>", "<mi>", "<mtext>", "<annotation-xml>", "<annotation-xml encoding=text/html>", "<foreignObject>", "<desc>", "<title>",
                  "<font color=red>", "<font>", "<p>", "</svg>", "</math>", "</p>", "<![CDATA[x]]>", "x", "<b>", "<br>", "</br>", "<mglyph>", "<malignmark>",
                  "<table>", "<svg:g>", "<image>", "<path/>", "</mi>", "</foreignObject>", "<svg definitionurl=a xlink:href=b xml:lang=c xmlns=d>", "<altglyph>", "<script>", "</script>", "<div>", "</desc>", "\0"]),
    ("raw", &["<title>", "<textarea>", "<script>", "<style>", "<plaintext>", "<xmp>", "<iframe>", "<noembed>", "<noframes>", "</title>", "</textarea>",
              "</script>", "</style>", "</xmp>", "x", "<b>", "\n", "<pre>", "<listing>", "</pre>", "&amp;", "\0", "<!--", "-->"]),
    ("lists", &["<ul>", "<ol>", "<li>", "<dl>", "<dt>", "<dd>", "<h1>", "<h2>", "<button>", "<ruby>", "<rb>", "<rt>", "<rtc>", "<rp>", "</li>", "</ul>", "</h1>",
                "</button>", "</dd>", "x", "<p>", "<address>", "<form>", "</form>", "<applet>", "<marquee>", "<object>", "</object>", "<nobr>", "<hr>", "<image>",
                "<br>", "</br>", "</p>", "<body>", "<math>", "<textarea>", "<search>", "<dialog>", "<hgroup>", "<menu>", "<summary>", "<details>", "</applet>", "<isindex>", "</h2>"]),
    ("meta", &["<meta charset=utf-8>", "<meta http-equiv=content-type content=\"text/html; charset=x\">", "<meta content=\"charset=y\" http-equiv=Content-Type>",
               "<meta http-equiv=refresh content=\"charset=z\">", "<meta>", "<head>", "</head>", "<body>", "<table>", "<template>", "<select>", "<svg>",
               "<noscript>", "<frameset>", "</body>", "<caption>", "<td>", "<title>", "</title>", "<math>", "<foreignObject>", "</template>", "x", "<script>", "</script>",
               "<meta charset>", "<META CHARSET=\"a b\" charset=c>", "<p>", "</html>",
               "<link charset=utf-8>", "<base charset=x>", "<bgsound http-equiv=content-type content=\"charset=y\">", "<basefont charset=z>"]),
    ("forms", &["<input>", "<button>", "<select>", "<textarea>", "</textarea>", "<img>", "<fieldset>", "<object>", "<output>", "<label>", "<form>", "</form>",
                "<div>", "</div>", "<table>", "<td>", "x", "<keygen>", "</select>", "</button>", "<template>", "</template>", "<input form=f>", "<b>", "</b>", "<p>"]),
    ("skeleton", &["<!DOCTYPE html>", "<!--c-->", "<html>", "<head>", "</head>", "<body>", "</body>", "</html>", "<frameset>", "</frameset>", "<noframes>", "x",
                   " ", "<p>", "<!DOCTYPE x>", "<title>", "<template>", "<table>", "</noframes>", "<frame>", "\n", "<html a=b>"]),
    ("ruby", &["<ruby>", "<rb>", "<rt>", "<rtc>", "<rp>", "x", "</ruby>", "<span>", "</rtc>", "</rt>", "<div>", "<p>", "</rb>", "<table>"]),
    ("aaa", &["<a>", "<b>", "<p>", "<div>", "</a>", "</b>", "</p>", "x", "<table>", "<td>", "<nobr>", "<button>", "</div>", "<i>", "</i>", "<li>",
              "<svg>", "<mi>", "<applet>", "<template>", "</table>", "<search>", "<span>", "</span>", "<math>", "<desc>", "<annotation-xml>", "</nobr>"]),
    ("ark", &["<b>", "<p>", "</p>", "x", "<b id=q>", "</b>", "<div>", "<b id=q class=r>", "<b class=r id=q>", "<i>", "<td>", "<table>"]),
    ("lf", &["<pre>", "<textarea>", "<listing>", "\n", "&#10", "&#10;", "x", "\r", "\r\n", "<b>", "\0", "</pre>", "<!DOCTYPE html>", "<!--c-->", "</textarea>",
             "<table>", "<svg>", "<pre a=1 a=2>", " "]),
    ("misc", &["<!DOCTYPE html>", "<!DOCTYPE x>", "<!-- c -->", "<?pi?>", "</>", "<a b=c b=d>", "<div id=1 id=2>", "\r\n", "\0", "&lt;", "<html>", "<body>",
               "<wbr>", "<area>", "<param>", "<source>", "<track>", "<embed>", "<img>", "<bgsound>", "x", "<nobr>", "<a>", "<table>", "<xmp>"]),
];

pub const CONTEXTS: &[(&str, &str)] = &[
    ("html", "div"), ("html", "table"), ("html", "tr"), ("html", "td"), ("html", "select"), ("html", "template"), ("html", "title"),
    ("html", "textarea"), ("html", "script"), ("html", "style"), ("html", "plaintext"), ("html", "noscript"), ("html", "html"), ("html", "head"),
    ("html", "body"), ("html", "frameset"), ("html", "caption"), ("html", "colgroup"), ("html", "tbody"), ("html", "option"), ("html", "p"),
    ("svg", "svg"), ("svg", "foreignObject"), ("svg", "title"), ("svg", "desc"), ("mathml", "math"), ("mathml", "mi"), ("mathml", "annotation-xml"),
    ("html", "xmp"), ("html", "iframe"), ("html", "noframes"), ("html", "form"), ("html", "button"), ("html", "li"),
    ("html", "th"), ("html", "thead"), ("html", "tfoot"), ("html", "col"), ("html", "optgroup"), ("html", "noembed"), ("html", "pre"),
    ("mathml", "mtext"), ("svg", "g"), ("html", "a"), ("html", "applet"), ("html", "dd"),
];

pub fn base_case(text: &str) -> Value {
    json!({"mode":"doc","ctx":{"ns":"html","local":cps("div"),"attrs":[]},"scripting":true,"srcdoc":false,"drop_doctype":false,
           "iquirks":"no","exact":false,"bom":true,"tb_exact":false,"form_owner":false,"chunks":[cps(text)],"gc":false,"quiet":true,"tokens":true,"dump":true})
}

pub fn emit_case(c: &Value, id: u64, out: &mut Out) {
    if std::env::var("VH_NOTE").is_ok() {
        crate::tok::note_current(c);
    }
    let po = if c.get("toks").is_some() { run_tokens(c) } else if c.get("bytes").is_some() { run_parse_bytes(c) } else { run_parse(c) };
    let mut cfg = c.clone();
    if c.get("toks").is_some() {
        cfg.as_object_mut().unwrap().remove("toks");
        cfg["tokdriven"] = json!(true);
    }
    cfg.as_object_mut().unwrap().remove("chunks");
    if std::env::var("VH_C02").is_ok() {
        // one line per case: the tokens the tree builder was given (with its replies) and the resulting tree
        let mut toks = Vec::new();
        for e in &po.events {
            if e["ev"] == "token" {
                toks.push(json!({"tok": e["tok"], "r": "none"}));
            } else if e["ev"] == "reply" {
                if let Some(l) = toks.last_mut() {
                    l["r"] = e["r"].clone();
                }
            }
        }
        let mut line = json!({"ev":"case","case":id,"cfg":cfg,"chunks":c["chunks"],"toks":toks,"dom":po.tree_flags,"quirks":po.quirks,
                              "istate":po.istate,"panic": match &po.panic { Some(m) => json!([cps(m)]), None => json!([]) }});
        if c.get("inject").is_some() {
            line["virtual"] = cps(&po.virtual_text);
        }
        if c.get("bytes").is_some() {
            line["bytes"] = c["bytes"].clone();
            line["cfg"].as_object_mut().unwrap().remove("bytes");
        }
        out.line(&line);
        return;
    }
    out.line(&json!({"ev":"reset","case":id,"cfg":cfg,"chunks":c["chunks"]}));
    for mut e in po.events {
        e["case"] = json!(id);
        out.line(&e);
    }
    out.line(&json!({"ev":"tree","case":id,"dom":po.tree,"quirks":po.quirks,"parents_ok":po.parents_ok,
                     "panic": match &po.panic { Some(m) => json!([cps(m)]), None => json!([]) }, "neof": po.neof, "ser": po.ser}));
}

fn rand_soup(r: &mut Rng, maxpieces: usize) -> String {
    let fam = r.pick(FAMILIES).1;
    let fam2 = r.pick(FAMILIES).1;
    let n = 1 + r.below(maxpieces);
    let mut s = String::new();
    for _ in 0..n {
        match r.below(12) {
            0 => s.push_str(&random_text(r, 6)),
            1 | 2 => {
                let w: &str = *r.pick(fam2);
                s.push_str(w)
            },
            _ => {
                let w: &str = *r.pick(fam);
                s.push_str(w)
            },
        }
    }
    s
}

pub fn main(args: &Args) {
    let mut out = Out::new();
    let shard = args.num("shard", 0);
    let shards = args.num("shards", 1).max(1);
    let how = args.get("chunk").unwrap_or("none").to_string();
    let gc = args.has("gc");
    let loud = args.has("loud");
    let optsets = args.has("optsets");
    let mut id = 0u64;
    let mut cr = Rng::new(args.num("seed", 1) ^ 0x77);
    if args.has("c02") {
        std::env::set_var("VH_C02", "1");
    }
    if args.has("replay") {
        for c in read_cases() {
            if c["ev"] == "reset" || c["ev"] == "case" {
                let mut case = c["cfg"].clone();
                case["chunks"] = c["chunks"].clone();
                if c["cfg"]["tokdriven"] == true {
                    case["toks"] = Value::Array(c["toks"].as_array().unwrap().iter().map(|x| x["tok"].clone()).collect());
                }
                if c.get("bytes").is_some() {
                    case["bytes"] = c["bytes"].clone();
                }
                id += 1;
                emit_case(&case, id, &mut out);
            } else if c.get("ev").is_some() {
                // any other recorded event of a replayed case: the case is re-run from its reset / case line only
            } else if c.get("text").is_some() && c.get("mode").is_none() {
                // an input text exported by MC_HtmlParser
                id += 1;
                emit_case(&base_case(&from_cps(&c["text"])), id, &mut out);
            } else if c.get("toks").is_some() {
                // a token sequence exported by MC_TreeBuilder: fed to the tree builder directly
                id += 1;
                let mut case = base_case("");
                for k in ["mode", "ctx", "scripting", "toks"] {
                    case[k] = c[k].clone();
                }
                case["ctx"]["attrs"] = json!([]);
                case["chunks"] = json!([]);
                emit_case(&case, id, &mut out);
            } else if c.get("mode").is_some() && c.get("chunks").is_some() {
                id += 1;
                emit_case(&c, id, &mut out);
            }
        }
        out.flush();
        return;
    }
    let mut n = 0u64;
    let mut run = |mut c: Value, out: &mut Out, cr: &mut Rng| {
        n += 1;
        if n % shards != shard {
            return;
        }
        c["gc"] = json!(gc);
        c["quiet"] = json!(!loud);
        let text = from_cps(&c["chunks"][0]);
        for ch in chunkings(&text, &how, cr) {
            let mut c2 = c.clone();
            c2["chunks"] = Value::Array(ch.iter().map(|x| cps(x)).collect());
            id += 1;
            emit_case(&c2, id, out);
            if optsets {
                // C08: the same input and feed schedule under the diagnostic / housekeeping options
                for (k1, v1, k2, v2) in [("exact", true, "tb_exact", true), ("exact", true, "tb_exact", false), ("bom", false, "tb_exact", true),
                                         ("drop_doctype", true, "exact", false)] {
                    let mut c3 = c2.clone();
                    c3[k1] = json!(v1);
                    c3[k2] = json!(v2);
                    id += 1;
                    emit_case(&c3, id, out);
                }
            }
        }
    };
    match args.get("mode").unwrap_or("random") {
        "selectedcontent" => {
            // directed: a select with selectedcontent in various places, then k pieces of the select family
            let pres = ["<select><button><selectedcontent></selectedcontent></button>", "<select><selectedcontent>old</selectedcontent>",
                        "<select><div><span><selectedcontent></selectedcontent></span></div><selectedcontent></selectedcontent>",
                        "<select multiple><button><selectedcontent></selectedcontent></button>",
                        "<select><button><selectedcontent></selectedcontent></button><optgroup>"];
            let fam: &[&str] = &["<option selected>", "<option>", "</option>", "x", "<b>y</b>", "<option selected>z<i>w</i>", "</select>", "<optgroup>", "<hr>", "</optgroup>"];
            let k = args.num("k", 3) as usize;
            for pre in pres {
                for len in 1..=k {
                    let total = fam.len().pow(len as u32);
                    for idx in 0..total {
                        let mut s = String::from(pre);
                        let mut x = idx;
                        for _ in 0..len {
                            s.push_str(fam[x % fam.len()]);
                            x /= fam.len();
                        }
                        run(base_case(&s), &mut out, &mut cr);
                    }
                }
            }
        },
        "bytes" => {
            // C10 (tree clause): markup soup as UTF-8 bytes with ill-formed sequences spliced in, cut into chunks at arbitrary
            // byte positions (inside multi-byte characters and inside ill-formed sequences too), fed through from_utf8()
            let mut r = Rng::new(args.num("seed", 1));
            let bad: &[&[u8]] = &[&[0x80], &[0xc0, 0xaf], &[0xe0, 0x80, 0xaf], &[0xf0, 0x9f, 0x98], &[0xed, 0xa0, 0x80], &[0xf4, 0x90, 0x80, 0x80],
                                  &[0xff], &[0xe2, 0x82], &[0xc3], &[0xf0, 0x9f], &[0xfe], &[0xf8, 0x88, 0x80, 0x80, 0x80], &[0xef, 0xbb, 0xbf], &[0xef, 0xbb]];
            for _ in 0..args.num("n", 100) {
                n += 1;
                if n % shards != shard {
                    let _ = rand_soup(&mut r, 8);
                    continue;
                }
                let soup = rand_soup(&mut r, args.num("maxpieces", 10) as usize) + *r.pick(&["", "\u{e9}", "\u{20ac}x", "\u{1f600}", "\u{feff}"]);
                let mut bytes: Vec<u8> = Vec::new();
                if r.chance(1, 6) {
                    bytes.extend_from_slice(*r.pick(bad));
                }
                for b in soup.as_bytes() {
                    bytes.push(*b);
                    if r.chance(1, 12) {
                        bytes.extend_from_slice(*r.pick(bad));
                    }
                }
                // chunkings: one piece, every single byte, and a few random cuts
                let mut variants: Vec<Vec<Vec<u8>>> = vec![vec![bytes.clone()], bytes.iter().map(|b| vec![*b]).collect()];
                for _ in 0..3 {
                    let mut v = Vec::new();
                    let mut cur = Vec::new();
                    for b in &bytes {
                        cur.push(*b);
                        if r.chance(1, 5) {
                            v.push(std::mem::take(&mut cur));
                        }
                    }
                    v.push(cur);
                    variants.push(v);
                }
                for v in variants {
                    let mut c = base_case("");
                    c["chunks"] = json!([]);
                    c["bytes"] = json!(v);
                    c["scripting"] = json!(true);
                    id += 1;
                    emit_case(&c, id, &mut out);
                }
            }
        },
        "scaled" => {
            // pathological sizes: long runs / deep nestings of one construct (C04: no panic, overflow or hang; a crash of
            // this process is attributed to the case noted next to the trace).  Trees are not dumped.
            std::env::set_var("VH_NOTE", "1");
            let n = args.num("scale", 10000) as usize;
            let units = ["<div>", "<b>", "<b id=1><i>", "<table><tr><td>", "<template>", "<svg><g>", "<a>", "<li>", "</p>", "<select><option>", "<p><b>",
                         "<math><mi>", "<table>", "<table><caption>", "<nobr>", "<dd><dt>", "<ruby><rt>", "<frameset>", "<button>", "<form>", "<h1>",
                         "<svg><foreignObject>", "<math><annotation-xml encoding=text/html>", "<optgroup>", "<td>", "</br>", "<applet>", "x<i>", "<font size=1>",
                         "<body a=b>", "<html c=d>", "<head>", "<title>", "<textarea>", "<!--x-->", "<?x>", "<tr>", "<col>", "<input>", "<hr>", "<a><div>"];
            let mut k = 0u64;
            for u in units {
                for (pre, post) in [("", ""), ("<table>", ""), ("", "</b></i></a></p></div></table>x"), ("<template>", "</template>"), ("<svg>", "<p>")] {
                    k += 1;
                    if k % shards != shard {
                        continue;
                    }
                    let mut s = String::from(pre);
                    for _ in 0..(n / u.len()).max(1) {
                        s.push_str(u);
                    }
                    s.push_str(post);
                    let mut c = base_case(&s);
                    c["dump"] = json!(false);
                    c["tokens"] = json!(true);
                    id += 1;
                    crate::tok::note_current(&c);
                    let po = run_parse(&c);
                    let mut cfg = c.clone();
                    cfg.as_object_mut().unwrap().remove("chunks");
                    cfg["scaled"] = json!({"unit": u, "pre": pre, "post": post, "chars": s.chars().count()});
                    out.line(&json!({"ev":"reset","case":id,"cfg":cfg,"chunks":[]}));
                    for mut e in po.feeds {
                        e["case"] = json!(id);
                        out.line(&e);
                    }
                    out.line(&json!({"ev":"tree","case":id,"dom":{"k":"none"},"quirks":po.quirks,"parents_ok":true,
                                     "panic": match &po.panic { Some(m) => json!([cps(m)]), None => json!([]) }, "neof": po.neof}));
                }
            }
        },
        "tables" => {
            // directed cases over the standard's tables (gen/c02_tables.json)
            let path = args.get("tables").expect("--tables FILE");
            let t: Value = serde_json::from_str(&std::fs::read_to_string(path).expect("tables file")).expect("tables json");
            let list = |k: &str| -> Vec<String> { t[k].as_array().unwrap().iter().map(|x| x.as_str().unwrap().to_string()).collect() };
            let mut inputs: Vec<String> = Vec::new();
            let upper = |s: &str| s.to_ascii_uppercase();
            for key in ["quirks_public_prefixes", "quirks_public_prefixes_if_no_system", "limited_public_prefixes", "quirks_public_exact"] {
                for p in list(key) {
                    for id in [p.clone(), format!("{}en", p), upper(&format!("{}EN", p)), format!("x{}", p)] {
                        inputs.push(format!("<!DOCTYPE html PUBLIC \"{}\">", id));
                        inputs.push(format!("<!DOCTYPE html PUBLIC \"{}\" \"s\">", id));
                        inputs.push(format!("<!DOCTYPE html PUBLIC \"{}\" \"\">", id));
                        inputs.push(format!("<!DOCTYPE htm PUBLIC \"{}\">", id));
                        inputs.push(format!("<!DOCTYPE html SYSTEM \"{}\">", id));
                    }
                }
            }
            for sid in list("quirks_system_exact") {
                for id in [sid.clone(), upper(&sid), format!("{}x", sid)] {
                    inputs.push(format!("<!DOCTYPE html SYSTEM \"{}\">", id));
                    inputs.push(format!("<!DOCTYPE html PUBLIC \"x\" \"{}\">", id));
                    inputs.push(format!("<!DOCTYPE html PUBLIC \"{}\">", id));
                }
            }
            for d in ["<!DOCTYPE html>", "<!DOCTYPE HTML>", "<!DOCTYPE>", "<!DOCTYPE html x>", "<!DOCTYPE html SYSTEM \"about:legacy-compat\">", "<!DOCTYPE html PUBLIC>",
                      "<!DOCTYPE html PUBLIC \"\">", "<!DOCTYPE html SYSTEM \"\">", "<!DOCTYPE xhtml>", "<!DOCTYPE html", "<!DOCTYPE html PUBLIC \"html\"", "x<!DOCTYPE html>",
                      " <!DOCTYPE html>", "<!--c--><!DOCTYPE html>", "<!DOCTYPE html><!DOCTYPE x>", "<p><!DOCTYPE html>", ""] {
                inputs.push(d.to_string());
            }
            let ndoctype = inputs.len();
            for tg in list("svg_tags") {
                inputs.push(format!("<svg><{}>", tg));
                inputs.push(format!("<svg><{}/>x", tg));
                inputs.push(format!("<math><{}>", tg));
                inputs.push(format!("<{}>", tg));
                inputs.push(format!("<svg><{}></{}>x", tg, tg.to_ascii_lowercase()));
            }
            let mut attrs = list("svg_attrs");
            attrs.extend(list("foreign_attrs"));
            attrs.extend(["contentScriptType", "contentStyleType", "externalResourcesRequired", "filterRes", "definitionURL", "viewbox2"].iter().map(|x| x.to_string()));
            for a in &attrs {
                inputs.push(format!("<svg {}=1>", a));
                inputs.push(format!("<math {}=1>", a));
                inputs.push(format!("<svg><g {}=1>", a));
                inputs.push(format!("<math><mi {}=1>", a));
                inputs.push(format!("<div {}=1>", a));
                inputs.push(format!("<svg><foreignObject><p {}=1>", a));
            }
            let mut specials = list("special_html");
            specials.extend(["span", "dialog", "isindex", "option", "optgroup", "menuitem", "command", "rb", "rt", "font", "a", "ruby", "picture", "slot"].iter().map(|x| x.to_string()));
            for x in &specials {
                inputs.push(format!("<b><{}>y</b>z", x));
                inputs.push(format!("<{}><span></{}>z", x, "q"));
                inputs.push(format!("<div><{}><q></div>z", x));
                inputs.push(format!("<li><{}><li>", x));
                inputs.push(format!("<dd><{}><dt>", x));
                inputs.push(format!("<p><{}>z", x));
                inputs.push(format!("<p><button><{}></p>z", x));
                inputs.push(format!("<table><{}>z", x));
                inputs.push(format!("<svg><{}>z", x));
                inputs.push(format!("<math><mi><{}>z", x));
                inputs.push(format!("<math><annotation-xml><{}>z", x));
                inputs.push(format!("</{}>z", x));
                inputs.push(format!("<{}></{}>z", x, x));
                inputs.push(format!("<select><{}>z", x));
            }
            for x in ["mi", "mo", "mn", "ms", "mtext", "annotation-xml", "math", "mrow"] {
                inputs.push(format!("<b><math><{}><p>y</b>z", x));
                inputs.push(format!("<p><math><{}></p>z", x));
                inputs.push(format!("<math><{}><span></q>z", x));
            }
            for x in ["foreignObject", "desc", "title", "g", "svg"] {
                inputs.push(format!("<b><svg><{}><p>y</b>z", x));
                inputs.push(format!("<p><svg><{}></p>z", x));
                inputs.push(format!("<svg><{}><span></q>z", x));
            }
            // loop limits: adoption agency outer loop (8), inner loop (3), Noah's ark (3), deep implied end tags
            let fmts = ["<i>", "<em>", "<s>", "<u>", "<tt>", "<big>", "<small>", "<strong>", "<code>", "<font>", "<strike>", "<nobr>", "<a>"];
            for n in 0..13usize {
                for tail in ["</b>", "x</b>", "</b>y", "x</b>y", "</b><p>z", "</b></b>", "</i>", "<b>"] {
                    inputs.push(format!("<b>{}{}", "<div>".repeat(n), tail));
                    inputs.push(format!("<b id=1>{}{}", "<p><div>".repeat(n), tail));
                    inputs.push(format!("<b>{}<div>x{}", fmts[..n].concat(), tail));
                    inputs.push(format!("<b>{}<div>{}<p>x{}", fmts[..n].concat(), "<i>".repeat(n / 2), tail));
                    inputs.push(format!("<table><b>{}{}", "<div>".repeat(n), tail));
                    inputs.push(format!("<a>{}<a>", "<div>".repeat(n)));
                }
                inputs.push(format!("{}<p>x", "<b>".repeat(n)));
                inputs.push(format!("{}<p>x", "<b class=c>".repeat(n)));
                inputs.push(format!("{}{}<p>x", "<b a=1 b=2>".repeat(n), "<b b=2 a=1>".repeat(2)));
                inputs.push(format!("{}<td>{}<p>x", "<b>".repeat(n), "<b>".repeat(n)));
                inputs.push(format!("{}</p>{}<div>x", "<b><i>".repeat(n), "</b>".repeat(n / 2)));
                inputs.push(format!("{}</ul>x", "<ul><li><p>".repeat(n)));
                inputs.push(format!("<table>{}x</table>y", "<tr><td><table>".repeat(n)));
                inputs.push(format!("{}x{}", "<template>".repeat(n), "</template>".repeat(n / 2)));
            }
            // template insertion-mode stack: nested templates whose modes differ, a reset that lands on a template
            // (end of a table / select / inner template), then a token the modes treat differently
            let setters = ["<tr>", "<td>", "<col>", "<tbody>", "<caption>", "<div>", "x", ""];
            let resets = ["<table></table>", "<template></template>", "<table><tr></table>", "</template>", "<select></select>"];
            let probes = ["<tr>", "<td>", "<col>", "<caption>", "<div>", "x", "<tbody>", "</template>y"];
            for m1 in setters {
                for m2 in setters {
                    for rs in resets {
                        for pr in probes {
                            inputs.push(format!("<template>{}<template>{}{}{}", m1, m2, rs, pr));
                        }
                    }
                }
            }
            for m1 in setters {
                for m2 in setters {
                    for m3 in ["<tr>", "<col>", "<div>"] {
                        inputs.push(format!("<template>{}<template>{}<template>{}</template><td>z", m1, m2, m3));
                    }
                }
            }
            for (i, inp) in inputs.iter().enumerate() {
                run(base_case(inp), &mut out, &mut cr);
                if i < ndoctype {
                    let mut c = base_case(inp);
                    c["srcdoc"] = json!(true);
                    run(c, &mut out, &mut cr);
                    let mut c = base_case(inp);
                    c["drop_doctype"] = json!(true);
                    c["iquirks"] = json!("limited");
                    run(c, &mut out, &mut cr);
                } else {
                    for (ns, local) in [("html", "div"), ("svg", "svg"), ("mathml", "math"), ("html", "table")] {
                        let mut c = base_case(inp);
                        c["mode"] = json!("frag");
                        c["ctx"] = json!({"ns":ns,"local":cps(local),"attrs":[]});
                        run(c, &mut out, &mut cr);
                    }
                }
            }
        },
        "enum" => {
            let k = args.num("k", 3) as usize;
            let only = args.get("family");
            for (name, fam) in FAMILIES {
                if only.is_some() && only != Some(*name) {
                    continue;
                }
                let np = (args.num("pieces", 14) as usize).min(fam.len());
                for len in 1..=k {
                    let total = np.pow(len as u32);
                    for idx in 0..total {
                        let mut s = String::new();
                        let mut x = idx;
                        for _ in 0..len {
                            s.push_str(fam[x % np]);
                            x /= np;
                        }
                        // document, scripting on/off for the head family, and two fragment contexts
                        run(base_case(&s), &mut out, &mut cr);
                        if *name == "head" || *name == "raw" {
                            let mut c = base_case(&s);
                            c["scripting"] = json!(false);
                            run(c, &mut out, &mut cr);
                        }
                        if len <= 2 {
                            for (ci, (ns, local)) in CONTEXTS.iter().enumerate() {
                                let mut c = base_case(&s);
                                c["mode"] = json!("frag");
                                c["ctx"] = json!({"ns":ns,"local":cps(local),"attrs":[]});
                                c["form_owner"] = json!(ci % 3 == 0);
                                run(c, &mut out, &mut cr);
                            }
                        }
                    }
                }
            }
        },
        _ => {
            let mut r = Rng::new(args.num("seed", 1));
            let cnt = args.num("n", 100);
            let maxp = args.num("maxpieces", 12) as usize;
            for _ in 0..cnt {
                let mut c = base_case(&rand_soup(&mut r, maxp));
                if r.chance(1, 3) {
                    let (ns, local) = *r.pick(CONTEXTS);
                    c["mode"] = json!("frag");
                    c["ctx"] = json!({"ns":ns,"local":cps(local),"attrs":[]});
                    c["form_owner"] = json!(r.chance(1, 2));
                }
                c["scripting"] = json!(r.chance(2, 3));
                if r.chance(1, 10) {
                    c["srcdoc"] = json!(true);
                }
                if args.has("inject") {
                    // scripts whose end tags suspend the parser, and text "written" at each suspension
                    let text = from_cps(&c["chunks"][0]);
                    let pieces = ["<script>a</script>", "<script></script>", "<svg><script>b</script></svg>", "<table><script>c</script>"];
                    let mut t2 = String::new();
                    for (k, part) in text.split('<').enumerate() {
                        if k > 0 {
                            t2.push('<');
                        }
                        t2.push_str(part);
                        if r.chance(1, 4) {
                            t2.push_str(*r.pick(&pieces));
                        }
                    }
                    t2.push_str("<script>z</script>x");
                    c["chunks"] = json!([cps(&t2)]);
                    let writes = ["<b>w", "</p><td>", "x", "<!--", "<script>n</script>y", "\n", "&amp", "<title>", "</title><p>", "<svg>", "<plaintext>", ""];
                    c["inject"] = Value::Array((0..4).map(|_| cps(*r.pick(&writes))).collect());
                }
                if args.has("c02") {
                    if r.chance(1, 4) {
                        c["iquirks"] = json!(*r.pick(&["full", "limited", "no"]));
                    }
                    if r.chance(1, 12) {
                        c["drop_doctype"] = json!(true);
                    }
                    if c["mode"] == "frag" && r.chance(1, 6) {
                        c["ctx"] = json!({"ns":"mathml","local":cps("annotation-xml"),
                                          "attrs":[{"ns":"","local":cps("encoding"),"v":cps(*r.pick(&["text/html", "TEXT/HTML", "application/xhtml+xml", "text/xml"]))}]});
                    }
                }
                run(c, &mut out, &mut cr);
            }
        },
    }
    out.flush();
}
