------------------------------ MODULE MC_HtmlSer ------------------------------
(***************************************************************************)
(* Design-level statement behind C07 (a): the standard's escaping is       *)
(* context-safe.  For every string s (no CR, no NUL) over an alphabet of   *)
(* characters that matter to the tokenizer,                                *)
(*   - tokenizing Escape(s) in the data state yields exactly the character *)
(*     data s, and                                                         *)
(*   - tokenizing <a x="Escape_attr(s)"> yields exactly one start tag `a`  *)
(*     whose attribute x has the value s,                                  *)
(* with the WHATWG tokenizer (L0 HtmlTokenizer).  Each string is exported  *)
(* and put through the real serializer and the real fragment parser.       *)
(***************************************************************************)
EXTENDS HtmlSerializer, HtmlTokenizer, TLC, Json
CONSTANTS MaxLen, DoExport
VARIABLES s
Alpha == {38, 60, 62, 34, 39, 160, 97, 59, 35, 61, 45, 32, 169, 233, 65279, 120, 108, 116, 109, 112, 47, 33, 10}
Init == s = <<>>
Next == Len(s) < MaxLen /\ \E c \in Alpha : s' = Append(s, c)
Spec == Init /\ [][Next]_s

Cfg == [state |-> "Data", last |-> <<>>, cdata |-> FALSE, replies |-> <<>>, inject |-> <<>>]
TextSafe == LET t == Tokenize(Cfg, Escape(s, FALSE)) IN
            IF s = <<>> THEN Len(t) = 1 ELSE Len(t) = 2 /\ t[1] = [k |-> "chars", s |-> s]
AttrSafe == LET t == Tokenize(Cfg, <<60, 97, 32, 120, 61, 34>> \o Escape(s, TRUE) \o <<34, 62>>) IN
            /\ Len(t) = 2 /\ t[1].k = "start" /\ t[1].name = <<97>>
            /\ t[1].attrs = <<[n |-> <<120>>, v |-> s]>>
Export == DoExport => PrintT(<<"REPLAY", ToJson([s |-> s])>>)
=============================================================================
