---------------------------- MODULE LossyWrapper ----------------------------
(***************************************************************************)
(* L1 model of tendril::stream::decode_to_sink -- the loop that drives an  *)
(* encoding_rs decoder -- over an *abstract* decoder obeying the           *)
(* encoding_rs calling contract.  The conversion tables are not modelled:  *)
(* a decoder is a ghost script saying which output items each input byte   *)
(* releases when consumed (characters, or a malformed-sequence marker M    *)
(* which ends the call), plus the items released by the end-of-stream      *)
(* flush.  Property: whatever the script, the chunking and the output      *)
(* buffer size, the sink receives exactly the ideal item sequence (M shown *)
(* as one U+FFFD with one error), including what is pending at the end.    *)
(***************************************************************************)
EXTENDS Chars, FiniteSets

M == 0   \* malformed marker; characters are positive integers

\* decoder state: [pos |-> bytes consumed, pend |-> items released but not yet written, tailDone]
\* One call of decode_to_utf8_without_replacement(input[pos+1..end], out[cap], last).
\* Returns [res, pos, pend, tailDone, written]
RECURSIVE DecodeCall(_, _, _, _, _, _, _, _, _)
DecodeCall(script, tail, pos, pend, tailDone, end, last, cap, written) ==
    IF pend # <<>> THEN
        IF Head(pend) = M THEN [res |-> "malformed", pos |-> pos, pend |-> Tail(pend), tailDone |-> tailDone, written |-> written]
        ELSE IF Len(written) = cap THEN [res |-> "full", pos |-> pos, pend |-> pend, tailDone |-> tailDone, written |-> written]
        ELSE DecodeCall(script, tail, pos, Tail(pend), tailDone, end, last, cap, Append(written, Head(pend)))
    ELSE IF pos < end THEN DecodeCall(script, tail, pos + 1, script[pos + 1], tailDone, end, last, cap, written)
    ELSE IF last /\ ~tailDone THEN DecodeCall(script, tail, pos, tail, TRUE, end, last, cap, written)
    ELSE [res |-> "empty", pos |-> pos, pend |-> <<>>, tailDone |-> tailDone, written |-> written]

\* The loop of decode_to_sink for one tendril input[pos+1..end].
\* ContinueWhenLast: the loop keeps calling the decoder while `last` is set even when no
\* input bytes remain (needed to drain what the decoder still holds after a malformed
\* sequence or a full buffer at end of stream).
RECURSIVE SinkLoop(_, _, _, _, _, _, _, _)
SinkLoop(script, tail, d, end, last, cap, delivered, contWhenLast) ==
    LET r == DecodeCall(script, tail, d.pos, d.pend, d.tailDone, end, last, cap, <<>>)
        d1 == [pos |-> r.pos, pend |-> r.pend, tailDone |-> r.tailDone]
        del1 == delivered \o r.written IN
    IF r.res = "empty" THEN [d |-> d1, delivered |-> del1]
    ELSE LET del2 == IF r.res = "malformed" THEN Append(del1, M) ELSE del1 IN
         IF r.pos = end /\ ~(contWhenLast /\ last) THEN [d |-> d1, delivered |-> del2]
         ELSE SinkLoop(script, tail, d1, end, last, cap, del2, contWhenLast)

Ideal(script, tail) == Flatten(script) \o tail

-----------------------------------------------------------------------------
(* Protocol check of a recorded run (events of one LossyDecoder history).  *)
(* ev.t = "call"  : process()/finish() entered, a = tendril length, d = last *)
(*        "iter"  : one loop iteration, res (0 empty,1 full,2 malformed),   *)
(*                  a = input length before, b = read, c = written, d = last *)
(*        "piece" : sink.process, a = number of code points                 *)
(*        "error" : sink.error                                              *)
(* st: [mode |-> "idle"|"loop"|"after_iter", rem, last, res, written, toSink] *)

RECURSIVE LoopOK(_, _, _, _)
\* rem = bytes of the current tendril not yet read
LoopOK(evs, i, rem, st) ==
    IF st.mode = "decide" THEN
        \* no event is consumed: the loop decides from the last iteration
        IF st.res = 0 \/ (rem = 0 /\ ~st.last) THEN LoopOK(evs, i, 0, [st EXCEPT !.mode = "idle"])
        ELSE LoopOK(evs, i, rem, [st EXCEPT !.mode = "loop"])
    ELSE IF i > Len(evs) THEN st.mode = "idle"
    ELSE LET e == evs[i] IN
    CASE st.mode = "idle" ->
            /\ e.t = "call"
            /\ IF e.a = 0 /\ ~e.d THEN LoopOK(evs, i + 1, 0, st)      \* empty non-final tendril: ignored
               ELSE LoopOK(evs, i + 1, e.a, [st EXCEPT !.mode = "loop", !.last = e.d])
      [] st.mode = "loop" ->
            /\ e.t = "iter" /\ e.a = rem /\ e.d = st.last /\ e.b <= rem
            /\ LoopOK(evs, i + 1, rem - e.b,
                      [st EXCEPT !.mode = IF e.c > 0 THEN "piece" ELSE IF e.res = 2 THEN "err" ELSE "decide", !.res = e.res])
      [] st.mode = "piece" ->
            /\ e.t = "piece" /\ e.a > 0
            /\ LoopOK(evs, i + 1, rem, [st EXCEPT !.mode = IF st.res = 2 THEN "err" ELSE "decide"])
      [] st.mode = "err" ->
            /\ e.t = "error"
            /\ LoopOK(evs, i + 1, rem, [st EXCEPT !.mode = "repl"])
      [] st.mode = "repl" ->
            /\ e.t = "piece" /\ e.a = 1
            /\ LoopOK(evs, i + 1, rem, [st EXCEPT !.mode = "decide"])
      [] OTHER -> FALSE

ProtocolOK(evs) == LoopOK(evs, 1, 0, [mode |-> "idle", last |-> FALSE, res |-> 0])
=============================================================================
