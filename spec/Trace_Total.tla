----------------------------- MODULE Trace_Total -----------------------------
(***************************************************************************)
(* C04 monitors on recorded runs (tokenizer level and parser level): no    *)
(* panic; every feed() that returned Done left the input queue empty;      *)
(* end() completed; exactly one EOF token, delivered last.                 *)
(***************************************************************************)
EXTENDS Chars, TLC, Json, IOUtils

Rec == ndJsonDeserialize(IOEnv.TRACE)
VARIABLES l
Init == l = 1

Judge(e) ==
    /\ e.panic = <<>>
    /\ \A i \in DOMAIN e.feeds : (e.feeds[i].ret = "done" => e.feeds[i].empty)
    /\ e.ended
    /\ e.neof = 1
    /\ e.eoflast

Next == /\ l <= Len(Rec)
        /\ l' = l + 1
        /\ (Judge(Rec[l]) \/ PrintT(<<"REJECT", l, Rec[l].case>>))

Spec == Init /\ [][Next]_l
AllConsumed == \/ TLCGet("stats").diameter = Len(Rec) + 1
               \/ PrintT(<<"NOT-CONSUMED", TLCGet("stats").diameter, Len(Rec)>>) /\ FALSE
=============================================================================
