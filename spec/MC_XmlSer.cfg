SPECIFICATION Spec
CONSTANTS
  MaxEvents = 4
  Defects = {}
INVARIANT EveryUsedPrefixDeclared
CHECK_DEADLOCK FALSE
