SPECIFICATION Spec
CONSTANTS
  Defects = {"eat_clears_ignore_lf_early"}
  MaxPieces = 2
  MaxFeeds = 3
  PieceSet <- MC_PiecesQuick
  StartSet <- MC_StartsQuick
  Injects <- MC_NoInjects
  BomOpts = {FALSE}
INVARIANTS LineInv SameAsOnePiece
CHECK_DEADLOCK FALSE
