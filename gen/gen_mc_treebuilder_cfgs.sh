#!/bin/bash
# (re)generate spec/MC_TreeBuilder_<family>[_thorough].cfg: token vocabularies (indices into MC_TreeBuilder!Vocab),
# context set (indices into Ctxs), depth for the quick and the thorough tier
cd "$(dirname "$0")/../spec"
mk() { # name depth_quick depth_thorough vocab ctxs scripting
for tier in q t; do
  if [ $tier = q ]; then f=MC_TreeBuilder_$1.cfg; d=$2; else f=MC_TreeBuilder_$1_thorough.cfg; d=$3; fi
  cat > $f <<EOT
SPECIFICATION Spec
CONSTANTS
  MaxToks = $d
  VocabIdx = {$4}
  CtxIdx = {$5}
  Scripting = $6
  DoExport = TRUE
INVARIANTS Structure Ark TemplateModes AtEof FragEof Export
CHECK_DEADLOCK FALSE
EOT
done; }
mk format 4 5 "1, 2, 3, 4, 5, 6, 7, 9, 11, 13, 17, 60" "1, 2" TRUE
mk table 3 4 "9, 10, 11, 12, 13, 14, 15, 16, 17, 18, 19, 20, 2, 4, 47, 50, 21" "1, 3, 4" TRUE
mk foreign 3 4 "23, 24, 25, 26, 27, 28, 29, 30, 3, 7, 9, 2, 6, 11, 67, 68, 78, 79, 80, 73" "1, 6, 7" TRUE
mk head 3 4 "31, 32, 33, 34, 35, 36, 37, 38, 39, 40, 81, 9, 10, 71, 72, 74, 21, 22, 92, 93" "1, 9" FALSE
mk select 3 4 "41, 42, 43, 44, 45, 46, 47, 48, 49, 9, 3, 11, 13, 4" "1, 8" TRUE
mk lists 3 4 "52, 53, 54, 55, 56, 57, 58, 59, 3, 7, 4, 8, 48, 49, 65, 66, 50, 51, 9" "1, 2" TRUE
mk template 3 4 "21, 22, 4, 13, 12, 20, 9, 11, 17, 33, 32, 31, 34, 2, 6" "1, 5" TRUE
mk raw 3 4 "82, 83, 84, 85, 86, 87, 88, 89, 90, 91, 92, 93, 94, 95, 96, 97, 98, 9, 3, 33, 11" "1, 2" TRUE
