"""C03 - output independent of chunking, pauses and resumption (tokenizer level; trees in the parser harness)."""
import os
from . import core
from .core import Run, WORK

RULE = ("For each base case (start configuration, text, script-pause injections) the real tokenizer is run in one piece "
        "(reference) and under ALL chunkings (texts <= 7 chars, empty chunks included) or every single cut + all-1-char + "
        "random cuts (longer), with text injected at each script suspension; TLC judges every run: tokens = L0 "
        "Tokenize of the concatenation with the injected text spliced right after the pausing end tag, and the "
        "(token, line) sequence and parse errors equal the one-piece run of the same build.")
SPEC, CFG = "Trace_TokSched.tla", "Trace_TokSched.cfg"


def classify(f, objs):
    return False


def count_refs(path):
    n = 0
    with open(path) as f:
        for l in f:
            if '"ev":"var"' in l:
                n += 1
    return n


def run(tier, seed, replay=None):
    r = Run("C03", tier, seed)
    core.build_harness()
    F = ["--fields", "sched", "--pair", "--inject"]
    if replay:
        meta, lines = core.load_replay(replay)
        src = os.path.join(WORK, "traces", "C03-replay-in.ndjson")
        with open(src, "w") as f:
            f.write("\n".join(lines) + "\n")
        if meta.get("sub") == "parse":
            r.gen_validate("replay", ["parse", "--replay", "--c02"], "Trace_Tree.tla", "Trace_Tree.cfg", 1, classify, core.count_lines,
                           stdin_files=[src], also=[("Trace_Parse.tla", "Trace_Parse.cfg")])
            return r.finish(RULE, write=False)
        r.gen_validate("replay", ["tok", "--replay", "--fields", "sched"], SPEC, CFG, 1, classify, count_refs, stdin_files=[src],
                       )
        return r.finish(RULE, write=False)
    quick = tier == "quick"
    N = core.NCPU
    res = core.tlc_mc("C03-mc", "MC_TokInput.tla", "MC_TokInput.cfg" if quick else "MC_TokInput_thorough.cfg", timeout=5000, xmx="16g")
    r.add_mc("MC_TokInput", res)
    # the attribute-value entry states in depth (raw peek/discard next to preprocessed line breaks)
    res = core.tlc_mc("C03-mc-bav", "MC_TokInput.tla", "MC_TokInput_bav.cfg", timeout=3000, xmx="12g")
    r.add_mc("MC_TokInput_bav", res)
    r.gen_validate("enum-k2-allchunk", ["tok", "--mode", "enum", "--k", 2, "--pieces", 20, "--chunk", "all"] + F, SPEC, CFG, N,
                   classify, count_refs, case_key="group", timeout=3000)
    r.gen_validate("bom-default-opts", ["tok", "--mode", "enum", "--pset", "bom", "--k", 3, "--pieces", 8, "--chunk", "all", "--opts", "bom"] + F,
                   SPEC, CFG, N, classify, count_refs, case_key="group", timeout=3000)
    r.gen_validate("prefixed-k2", ["tok", "--mode", "prefixed", "--k", 2, "--pieces", 16, "--chunk", "some"] + F, SPEC, CFG, N,
                   classify, count_refs, case_key="group", timeout=3000)
    # after an attribute name / '=' / inside values: every line-break kind followed by the characters that raise errors
    # in an unquoted value, under cuts at every position (the read path there depends on reconsume / ignore_lf)
    r.gen_validate("attr-linebreaks-k3", ["tok", "--mode", "prefixed", "--pset", "attr", "--prefix-contains", "<a b", "--k", 3,
                                          "--pieces", 8 if quick else 12, "--chunk", "some"] + F, SPEC, CFG, N, classify, count_refs,
                   case_key="group", timeout=3000)
    r.gen_validate("random", ["tok", "--mode", "random", "--n", 250 if quick else 4000, "--maxlen", 40, "--chunk", "some"] + F, SPEC, CFG, N,
                   classify, count_refs, case_key="group", timeout=3000)
    if not quick:
        r.gen_validate("enum-lines-k3-allchunk", ["tok", "--mode", "enum", "--pset", "lines", "--k", 3, "--pieces", 12, "--chunk", "all"] + F,
                       SPEC, CFG, N * 4, classify, count_refs, case_key="group", timeout=6000, xmx="4g")
        r.gen_validate("prefixed-k3", ["tok", "--mode", "prefixed", "--k", 3, "--pieces", 12, "--chunk", "some"] + F, SPEC, CFG, N * 4,
                       classify, count_refs, case_key="group", timeout=6000, xmx="4g")
    # final tree: the real parser fed in chunks (every 1-character chunking, single cuts, random cuts) must deliver the
    # tree the L0 parser computes for the concatenated input
    PT = [("Trace_Parse.tla", "Trace_Parse.cfg")]
    r.gen_validate("tree-pairs-1char", ["parse", "--c02", "--mode", "enum", "--k", 2, "--pieces", 14 if quick else 30, "--chunk", "chars"],
                   "Trace_Tree.tla", "Trace_Tree.cfg", N, classify, core.count_lines, timeout=5000, xmx="4g", also=PT)
    r.gen_validate("tree-random-cuts", ["parse", "--c02", "--mode", "random", "--n", 250 if quick else 6000, "--maxpieces", 30, "--chunk", "some"],
                   "Trace_Tree.tla", "Trace_Tree.cfg", N, classify, core.count_lines, timeout=5000, xmx="4g", also=PT)
    # script pauses at parser level: inputs with script elements (also in SVG and in tables); at each suspension the harness pushes
    # a string to the front of the input, as document.write does; the tree must be the L0 parser's tree of the text with those
    # strings written in place
    r.gen_validate("tree-script-injection", ["parse", "--c02", "--mode", "random", "--inject", "--n", 120 if quick else 4000, "--maxpieces", 10,
                                             "--chunk", "some"], "Trace_Tree.tla", "Trace_Tree.cfg", N, classify, core.count_lines, timeout=5000,
                   xmx="4g", also=PT)
    r.assumptions = ["parse errors are compared only between two runs of the same build and options (their wording is html5ever's)",
                     "character-token boundaries legitimately depend on chunking: character data is compared per maximal group, "
                     "with the line reported for the group's last token",
                     "injected strings do not end in CR (a CR/LF pair straddling the injection point is outside the generator)"]
    return r.finish(RULE)
