"""C10 - byte-stream front ends decode exactly like a whole-input lossy decode."""
import os
from . import core
from .core import Run, WORK

RULE = ("MC_Utf8: all byte strings over UTF-8 class representatives x all chunkings, L1 streaming decoder refines "
        "L0 Lossy (Table 3-7, maximal subparts); every explored input is replayed on the real Utf8LossyDecoder under "
        "ALL its chunkings; seeded random byte strings x random chunkings; MC_LossyWrapper: decode_to_sink loop over "
        "every abstract encoding_rs decoder script; LossyDecoder runs over all 40 encodings judged against the logged "
        "one-shot decode, loop iterations (hook H5) checked against the L1 loop protocol.  Tree clause: real parses of "
        "byte streams through from_utf8() under byte-level chunkings are judged by the L0 parser applied to L0 Lossy of "
        "the concatenated bytes (Trace_Parse).")


def classify(f, objs):
    return False


def run(tier, seed, replay=None):
    r = Run("C10", tier, seed)
    core.build_harness()
    if replay:
        meta, lines = core.load_replay(replay)
        src = os.path.join(WORK, "traces", "C10-replay-in.ndjson")
        with open(src, "w") as f:
            f.write("\n".join(lines) + "\n")
        if meta.get("spec", "").startswith("Trace_Parse"):
            r.gen_validate("replay", ["parse", "--replay", "--c02"], "Trace_Parse.tla", "Trace_Parse.cfg", 1, classify, core.count_lines,
                           stdin_files=[src])
        elif meta.get("spec", "").startswith("Trace_Enc"):
            r.gen_validate("replay", ["enc", "--replay"], "Trace_Enc.tla", "Trace_Enc.cfg", 1, classify, core.count_lines, stdin_files=[src])
        else:
            r.gen_validate("replay", ["utf8", "--replay"], "Trace_Utf8.tla", "Trace_Utf8.cfg", 1, classify, core.count_lines, stdin_files=[src])
        return r.finish(RULE, write=False)
    quick = tier == "quick"
    # model checking: streaming UTF-8 decoder refines lossy decode; export inputs
    cases = os.path.join(WORK, "traces", "C10-mc-cases.ndjson")
    cfg = "MC_Utf8.cfg" if quick else "MC_Utf8_thorough.cfg"
    res = core.tlc_mc("C10-utf8", "MC_Utf8.tla", cfg, replay_out=cases, timeout=3000, xmx="16g")
    r.add_mc(cfg, res)
    res2 = core.tlc_mc("C10-wrapper", "MC_LossyWrapper.tla", "MC_LossyWrapper.cfg" if quick else "MC_LossyWrapper_thorough.cfg", timeout=3000)
    r.add_mc("MC_LossyWrapper", res2)
    if res["ok"]:
        parts, n = core.split_file(cases, core.NCPU)
        r.gen_validate("mc-inputs-all-chunkings", ["utf8", "--replay", "--expand"], "Trace_Utf8.tla", "Trace_Utf8.cfg",
                       len(parts), classify, core.count_lines, stdin_files=parts)
        r.extra["mc_inputs_replayed"] = n
    n = 1500 if quick else 20000
    r.gen_validate("utf8-random", ["utf8", "--n", n, "--maxlen", 48], "Trace_Utf8.tla", "Trace_Utf8.cfg", core.NCPU,
                   classify, core.count_lines)
    r.gen_validate("encoding_rs", ["enc", "--n", 25 if quick else 400, "--short"], "Trace_Enc.tla", "Trace_Enc.cfg", core.NCPU,
                   classify, core.count_lines)
    # tree clause: bytes (markup soup with ill-formed sequences spliced in) fed through parse_document(..).from_utf8() in one
    # piece, byte by byte and under random cuts; TLC decodes the concatenated bytes with L0 Lossy and runs the L0 parser
    r.gen_validate("from_utf8-tree", ["parse", "--c02", "--mode", "bytes", "--n", 400 if quick else 8000, "--maxpieces", 10],
                   "Trace_Parse.tla", "Trace_Parse.cfg", core.NCPU, classify, core.count_lines, timeout=5000, xmx="4g")
    r.assumptions = ["encoding_rs's conversion tables are an input to the specification: the one-shot decode logged by the "
                     "harness (Encoding::decode, or decode_without_bom_handling for the UTF-8 route which does no BOM "
                     "handling) is the property's own oracle",
                     "String::from_utf8_lossy is logged with every case to cross-check the TLA+ transcription of Table 3-7"]
    return r.finish(RULE)
