//! C10: byte-stream front ends.  `utf8`: Utf8LossyDecoder over chunked bytes with a recording
//! sink (+ std's from_utf8_lossy as a cross-check of the TLA+ transcription of Table 3-7).
//! `enc`: LossyDecoder over every encoding_rs encoding vs the one-shot decode.
use crate::util::*;
use serde_json::{json, Value};
use std::borrow::Cow;
use std::cell::RefCell;
use std::rc::Rc;
use tendril::stream::{LossyDecoder, TendrilSink, Utf8LossyDecoder};
use tendril::{ByteTendril, StrTendril};

#[derive(Default)]
pub struct RecSink {
    pub pieces: Vec<String>,
    pub nerr: usize,
}
impl TendrilSink<tendril::fmt::UTF8> for RecSink {
    type Output = RecSink;
    fn process(&mut self, t: StrTendril) {
        self.pieces.push(t.to_string());
    }
    fn error(&mut self, _d: Cow<'static, str>) {
        self.nerr += 1;
    }
    fn finish(self) -> RecSink {
        self
    }
}

fn chunks_of(case: &Value) -> Vec<Vec<u8>> {
    case["chunks"].as_array().unwrap().iter().map(bytes_from).collect()
}

pub fn run_utf8(chunks: &[Vec<u8>], id: u64, out: &mut Out) {
    let all: Vec<u8> = chunks.concat();
    let r = catch(|| {
        let mut d = Utf8LossyDecoder::new(RecSink::default());
        for c in chunks {
            d.process(ByteTendril::from_slice(c));
        }
        d.finish()
    });
    let std = String::from_utf8_lossy(&all).to_string();
    let jc: Vec<Value> = chunks.iter().map(|c| cps_bytes(c)).collect();
    match r {
        Ok(s) => out.line(&json!({"ev":"case","case":id,"chunks":jc,
            "pieces": s.pieces.iter().map(|p| cps(p)).collect::<Vec<_>>(),
            "nerr": s.nerr, "std": cps(&std), "panic": []})),
        Err(m) => out.line(&json!({"ev":"case","case":id,"chunks":jc,"pieces":[],"nerr":0,"std":cps(&std),"panic":[cps(&m)]})),
    }
}

/// every way of cutting `all` into consecutive non-empty chunks (2^(n-1)), plus, for the first
/// few, variants with an empty chunk inserted at each position
fn all_chunkings(all: &[u8], f: &mut dyn FnMut(Vec<Vec<u8>>)) {
    let n = all.len();
    if n == 0 {
        f(vec![]);
        f(vec![vec![]]);
        return;
    }
    for mask in 0u32..(1u32 << (n - 1)) {
        let mut chunks = Vec::new();
        let mut cur = Vec::new();
        for i in 0..n {
            cur.push(all[i]);
            if i + 1 < n && (mask >> i) & 1 == 1 {
                chunks.push(std::mem::take(&mut cur));
            }
        }
        chunks.push(cur);
        if mask == (1u32 << (n - 1)) - 1 {
            // fully split: also with empty chunks between every pair
            let mut e = Vec::new();
            for c in &chunks {
                e.push(vec![]);
                e.push(c.clone());
            }
            e.push(vec![]);
            f(e);
        }
        f(chunks);
    }
}

const INTERESTING: &[u8] = &[
    0x00, 0x41, 0x7f, 0x80, 0x8f, 0x90, 0x9f, 0xa0, 0xbf, 0xc0, 0xc1, 0xc2, 0xdf, 0xe0, 0xe1, 0xec, 0xed, 0xee, 0xef,
    0xf0, 0xf1, 0xf3, 0xf4, 0xf5, 0xf8, 0xfe, 0xff, 0x3c, 0x26, 0x0d, 0x0a, 0xbb, 0xbd,
];

fn rand_bytes(r: &mut Rng, max: usize) -> Vec<u8> {
    let n = r.below(max + 1);
    let mut v = Vec::new();
    while v.len() < n {
        match r.below(6) {
            0 => v.push(*r.pick(INTERESTING)),
            1 => v.push(r.below(256) as u8),
            2 | 3 => {
                // a valid scalar, possibly truncated or with a damaged byte
                let c = match r.below(5) {
                    0 => r.below(0x80) as u32,
                    1 => 0x80 + r.below(0x780) as u32,
                    2 => 0x800 + r.below(0xF800) as u32,
                    3 => 0x10000 + r.below(0x100000) as u32,
                    _ => *r.pick(&[0x7ffu32, 0x800, 0xd7ff, 0xe000, 0xfffd, 0xffff, 0x10000, 0x10ffff, 0xfeff]),
                };
                let ch = char::from_u32(c).unwrap_or('\u{fffd}');
                let mut b = [0u8; 4];
                let s = ch.encode_utf8(&mut b).as_bytes().to_vec();
                let mut s = s;
                if r.chance(1, 3) {
                    let k = r.below(s.len()) + 1;
                    s.truncate(k);
                } else if r.chance(1, 4) {
                    let k = r.below(s.len());
                    s[k] = *r.pick(INTERESTING);
                }
                v.extend(s);
            },
            _ => v.push(0x20 + r.below(0x5f) as u8),
        }
    }
    v
}

fn rand_chunking(r: &mut Rng, all: &[u8]) -> Vec<Vec<u8>> {
    let mut chunks = Vec::new();
    let mut i = 0;
    let style = r.below(4);
    while i < all.len() {
        let k = match style {
            0 => 1,
            1 => 1 + r.below(3),
            2 => r.below(4), // may be empty
            _ => 1 + r.below(all.len()),
        };
        let e = (i + k).min(all.len());
        chunks.push(all[i..e].to_vec());
        i = e;
    }
    if r.chance(1, 4) {
        chunks.push(vec![]);
    }
    chunks
}

pub fn main_utf8(args: &Args) {
    let mut out = Out::new();
    let mut id = 0u64;
    if args.has("replay") {
        let expand = args.has("expand");
        for c in read_cases().iter() {
            let chunks = chunks_of(c);
            if expand {
                let all: Vec<u8> = chunks.concat();
                id += 1;
                run_utf8(&chunks, id, &mut out);
                all_chunkings(&all, &mut |ch| {
                    id += 1;
                    run_utf8(&ch, id, &mut out);
                });
            } else {
                id += 1;
                run_utf8(&chunks, id, &mut out);
            }
        }
    } else {
        let mut r = Rng::new(args.num("seed", 1));
        let n = args.num("n", 100);
        let maxlen = args.num("maxlen", 40) as usize;
        for _ in 0..n {
            let all = rand_bytes(&mut r, maxlen);
            for _ in 0..3 {
                id += 1;
                let ch = rand_chunking(&mut r, &all);
                run_utf8(&ch, id, &mut out);
            }
        }
    }
    out.flush();
}

// ---------------------------------------------------------------------------------------------

pub const LABELS: &[&str] = &[
    "big5", "euc-jp", "euc-kr", "gb18030", "gbk", "ibm866", "iso-2022-jp", "iso-8859-2", "iso-8859-3", "iso-8859-4",
    "iso-8859-5", "iso-8859-6", "iso-8859-7", "iso-8859-8", "iso-8859-8-i", "iso-8859-10", "iso-8859-13",
    "iso-8859-14", "iso-8859-15", "iso-8859-16", "koi8-r", "koi8-u", "macintosh", "replacement", "shift_jis",
    "utf-16be", "utf-16le", "utf-8", "windows-1250", "windows-1251", "windows-1252", "windows-1253", "windows-1254",
    "windows-1255", "windows-1256", "windows-1257", "windows-1258", "windows-874", "x-mac-cyrillic", "x-user-defined",
];

struct EvSink {
    pieces: Vec<String>,
    nerr: usize,
    evs: Rc<RefCell<Vec<Value>>>,
}
fn ev(t: &str, a: usize, b: usize, c: usize, d: bool, res: u8) -> Value {
    json!({"t":t,"a":a,"b":b,"c":c,"d":d,"res":res})
}
impl TendrilSink<tendril::fmt::UTF8> for EvSink {
    type Output = EvSink;
    fn process(&mut self, t: StrTendril) {
        self.evs.borrow_mut().push(ev("piece", t.chars().count(), 0, 0, false, 0));
        self.pieces.push(t.to_string());
    }
    fn error(&mut self, _d: Cow<'static, str>) {
        self.evs.borrow_mut().push(ev("error", 0, 0, 0, false, 0));
        self.nerr += 1;
    }
    fn finish(self) -> EvSink {
        self
    }
}

pub fn run_enc(label: &str, chunks: &[Vec<u8>], id: u64, out: &mut Out) {
    let enc = encoding_rs::Encoding::for_label(label.as_bytes()).expect("label");
    let all: Vec<u8> = chunks.concat();
    let evs: Rc<RefCell<Vec<Value>>> = Rc::new(RefCell::new(Vec::new()));
    let e2 = evs.clone();
    tendril::verif::set_hook(Some(Box::new(move |e| match e {
        tendril::verif::Event::DecodeIter { result, input_len, read, written, last } => {
            e2.borrow_mut().push(ev("iter", input_len, read, written, last, result));
        },
        #[allow(unreachable_patterns)]
        _ => {},
    })));
    let r = catch(|| {
        let mut d = LossyDecoder::new_encoding_rs(enc, EvSink { pieces: vec![], nerr: 0, evs: evs.clone() });
        for c in chunks {
            evs.borrow_mut().push(ev("call", c.len(), 0, 0, false, 0));
            d.process(ByteTendril::from_slice(c));
        }
        evs.borrow_mut().push(ev("call", 0, 0, 0, true, 0));
        d.finish()
    });
    tendril::verif::set_hook(None);
    // One-shot lossy decode of the whole input with the BOM policy of the decoder under test:
    // new_encoding_rs(UTF_8) routes to the plain UTF-8 decoder (no BOM handling), every other
    // encoding uses Encoding::new_decoder() (BOM sniffing), whose one-shot form is decode().
    let one = if enc == encoding_rs::UTF_8 {
        enc.decode_without_bom_handling(&all).0.to_string()
    } else {
        enc.decode(&all).0.to_string()
    };
    let jc: Vec<Value> = chunks.iter().map(|c| cps_bytes(c)).collect();
    let utf8path = enc == encoding_rs::UTF_8;
    let evv = Value::Array(evs.borrow().clone());
    match r {
        Ok(s) => out.line(&json!({"ev":"case","case":id,"enc":label,"chunks":jc,
            "pieces": s.pieces.iter().map(|p| cps(p)).collect::<Vec<_>>(),
            "nerr": s.nerr, "oneshot": cps(&one), "panic": [], "evs": evv, "utf8path": utf8path})),
        Err(m) => out.line(&json!({"ev":"case","case":id,"enc":label,"chunks":jc,"pieces":[],"nerr":0,
            "oneshot": cps(&one), "panic":[cps(&m)], "evs": evv, "utf8path": utf8path})),
    }
}

fn enc_bytes(r: &mut Rng, label: &str, max: usize) -> Vec<u8> {
    let n = 1 + r.below(max);
    let mut v = Vec::new();
    while v.len() < n {
        match r.below(8) {
            0 if label == "iso-2022-jp" => {
                // escape sequences, complete and truncated
                let e: &[&[u8]] = &[b"\x1b$B", b"\x1b(B", b"\x1b(J", b"\x1b$@", b"\x1b(I", b"\x1b$", b"\x1b(", b"\x1b", b"\x1b$B0!"];
                let x: &[u8] = *r.pick(e);
                v.extend_from_slice(x);
            },
            0 | 1 => v.push(0x80 + r.below(0x80) as u8),
            2 => v.push(r.below(256) as u8),
            3 => v.extend_from_slice(*r.pick(&[&b"\xff\xfe"[..], b"\xfe\xff", b"\xef\xbb\xbf", b"\x00\xd8", b"\xd8\x00", b"\x81\x30\x81\x30", b"\x8e\xa1", b"\x8f\xa1\xa1"])),
            _ => v.push(0x20 + r.below(0x5f) as u8),
        }
    }
    v
}

pub fn main_enc(args: &Args) {
    let mut out = Out::new();
    let mut id = 0u64;
    if args.has("replay") {
        for c in read_cases().iter() {
            id += 1;
            run_enc(c["enc"].as_str().unwrap(), &chunks_of(c), id, &mut out);
        }
    } else {
        let mut r = Rng::new(args.num("seed", 1));
        let n = args.num("n", 50);
        let exhaustive_short = args.has("short");
        for label in LABELS {
            if exhaustive_short {
                // every 1- and 2-byte string over boundary bytes, every chunking
                let bs: &[u8] = &[0x1b, 0x24, 0x28, 0x42, 0x41, 0x80, 0x81, 0x8e, 0x8f, 0xa1, 0xfe, 0xff, 0xd8, 0xdc, 0x00, 0x30];
                for &a in bs {
                    id += 1;
                    run_enc(label, &[vec![a]], id, &mut out);
                    for &b in bs {
                        id += 1;
                        run_enc(label, &[vec![a, b]], id, &mut out);
                        id += 1;
                        run_enc(label, &[vec![a], vec![b]], id, &mut out);
                    }
                }
            }
            for _ in 0..n {
                let all = enc_bytes(&mut r, label, 24);
                for _ in 0..2 {
                    id += 1;
                    run_enc(label, &rand_chunking(&mut r, &all), id, &mut out);
                }
            }
        }
    }
    out.flush();
}
