SPECIFICATION Spec
CONSTANTS
  MaxPieces = 5
  PieceSet <- MC_PiecesB
  DoExport = TRUE
INVARIANTS Wellformed Export
CHECK_DEADLOCK FALSE
