-------------------------------- MODULE Dom --------------------------------
(***************************************************************************)
(* L0: the abstract DOM behind the TreeSink trait                          *)
(* (markup5ever/interface/tree_builder.rs) -- the state a sink holds and   *)
(* the effect of every operation a tree builder can ask for -- together    *)
(* with the calling contract the trait documents, stated as a precondition *)
(* (`Pre...`) per operation.  Nodes are numbered in creation order; the    *)
(* document is node 0.  Text nodes carry no handle: they live as entries   *)
(* of their parent's child list, as the trait's NodeOrText suggests.       *)
(***************************************************************************)
EXTENDS Chars, FiniteSets, Integers

\* child-list entries
NodeE(i) == [t |-> "n", id |-> i]
TextE(s) == [t |-> "t", s |-> s]
DoctypeE(n, p, s) == [t |-> "d", name |-> n, pub |-> p, sys |-> s]

\* node records (uniform shape)
MkNode(k, ns, local, attrs, s, tg) ==
    [k |-> k, parent |-> -1, ch |-> <<>>, ns |-> ns, local |-> local, attrs |-> attrs, tmpl |-> -1, host |-> -1,
     s |-> s, tg |-> tg]
DocNode == MkNode("doc", "", <<>>, <<>>, <<>>, <<>>)
InitNodes == <<DocNode>>

N(nodes, id) == nodes[id + 1]
Known(nodes, id) == id >= 0 /\ id < Len(nodes)
IsEl(nodes, id) == Known(nodes, id) /\ N(nodes, id).k = "el"
S_template == <<116, 101, 109, 112, 108, 97, 116, 101>>
S_option == <<111, 112, 116, 105, 111, 110>>
S_select == <<115, 101, 108, 101, 99, 116>>
S_form == <<102, 111, 114, 109>>
IsHtmlEl(nodes, id, name) == IsEl(nodes, id) /\ N(nodes, id).ns = "html" /\ N(nodes, id).local = name

\* a is x, an ancestor of x, or the host of a template-contents fragment x sits in
RECURSIVE InclAncestor(_, _, _)
InclAncestor(nodes, a, x) ==
    IF x = a THEN TRUE
    ELSE LET n == N(nodes, x) IN
         IF n.parent # -1 THEN InclAncestor(nodes, a, n.parent)
         ELSE IF n.host # -1 THEN InclAncestor(nodes, a, n.host)
         ELSE FALSE

RECURSIVE RootOf(_, _)
RootOf(nodes, x) == LET n == N(nodes, x) IN
    IF n.parent # -1 THEN RootOf(nodes, n.parent) ELSE IF n.host # -1 THEN RootOf(nodes, n.host) ELSE x

\* two attributes have "the same qualified name"
SameAttrName(a, b) == a.ns = b.ns /\ a.local = b.local
AttrsDistinct(attrs) == \A i, j \in DOMAIN attrs : SameAttrName(attrs[i], attrs[j]) => i = j
\* C05 speaks of "the same qualified name".  Both readings are judged: no two attributes with the same prefix:local
\* (QNamesDistinct) and no two with the same namespace + local name (AttrsDistinct).  For HTML parses they coincide
\* (only the adjusted foreign attributes carry a prefix); for XML the second is what the tree builder de-duplicates by
SameQualifiedName(a, b) == a.prefix = b.prefix /\ a.local = b.local
QNamesDistinct(attrs) == \A i, j \in DOMAIN attrs : SameQualifiedName(attrs[i], attrs[j]) => i = j

IndexOfNode(ch, id) == CHOOSE i \in DOMAIN ch : ch[i].t = "n" /\ ch[i].id = id
RemoveAt(s, i) == SubSeq(s, 1, i - 1) \o SubSeq(s, i + 1, Len(s))
InsertAt(s, i, e) == SubSeq(s, 1, i - 1) \o <<e>> \o SubSeq(s, i, Len(s))

-----------------------------------------------------------------------------
(* effects *)

Create(nodes, rec) == Append(nodes, rec)

CreateElement(nodes, ns, local, attrs, template) ==
    LET id == Len(nodes)
        el == MkNode("el", ns, local, attrs, <<>>, <<>>) IN
    IF template
    THEN \* the template contents fragment is created with the element; it gets its handle number
         \* when get_template_contents first returns it, so it is stored inline until then
         Append(nodes, [el EXCEPT !.tmpl = -2])
    ELSE Append(nodes, el)

Detach(nodes, c) ==
    LET p == N(nodes, c).parent IN
    IF p = -1 THEN nodes
    ELSE [nodes EXCEPT ![p + 1].ch = RemoveAt(@, IndexOfNode(@, c)), ![c + 1].parent = -1]

AppendNodeTo(nodes, p, c) ==
    [nodes EXCEPT ![p + 1].ch = Append(@, NodeE(c)), ![c + 1].parent = p]

AppendTextTo(nodes, p, s) ==
    LET ch == N(nodes, p).ch IN
    IF ch # <<>> /\ ch[Len(ch)].t = "t"
    THEN [nodes EXCEPT ![p + 1].ch = [ch EXCEPT ![Len(ch)] = TextE(ch[Len(ch)].s \o s)]]
    ELSE [nodes EXCEPT ![p + 1].ch = Append(ch, TextE(s))]

\* insert before `sib` (which has a parent)
InsertNodeBefore(nodes, sib, c) ==
    LET n1 == Detach(nodes, c)
        p == N(n1, sib).parent
        i == IndexOfNode(N(n1, p).ch, sib) IN
    [n1 EXCEPT ![p + 1].ch = InsertAt(@, i, NodeE(c)), ![c + 1].parent = p]

InsertTextBefore(nodes, sib, s) ==
    LET p == N(nodes, sib).parent
        ch == N(nodes, p).ch
        i == IndexOfNode(ch, sib) IN
    IF i > 1 /\ ch[i - 1].t = "t"
    THEN [nodes EXCEPT ![p + 1].ch = [ch EXCEPT ![i - 1] = TextE(ch[i - 1].s \o s)]]
    ELSE [nodes EXCEPT ![p + 1].ch = InsertAt(ch, i, TextE(s))]

AppendDoctype(nodes, n, p, s) == [nodes EXCEPT ![1].ch = Append(@, DoctypeE(n, p, s))]

\* move all children of `node` to the end of `np`
ReparentChildren(nodes, node, np) ==
    LET ch == N(nodes, node).ch
        moved == {ch[i].id : i \in {j \in DOMAIN ch : ch[j].t = "n"}} IN
    [i \in DOMAIN nodes |->
        IF i = node + 1 THEN [nodes[i] EXCEPT !.ch = <<>>]
        ELSE IF i = np + 1 THEN [nodes[i] EXCEPT !.ch = @ \o ch]
        ELSE IF (i - 1) \in moved THEN [nodes[i] EXCEPT !.parent = np]
        ELSE nodes[i]]

AddAttrsIfMissing(nodes, target, attrs) ==
    LET old == N(nodes, target).attrs
        RECURSIVE Add(_, _)
        Add(acc, i) == IF i > Len(attrs) THEN acc
                       ELSE IF \E j \in DOMAIN old : SameAttrName(old[j], attrs[i]) THEN Add(acc, i + 1)
                       ELSE Add(Append(acc, attrs[i]), i + 1) IN
    [nodes EXCEPT ![target + 1].attrs = Add(old, 1)]

\* get_template_contents: the fragment gets its number on the first call
TemplateContents(nodes, target) ==
    IF N(nodes, target).tmpl >= 0 THEN [nodes |-> nodes, ret |-> N(nodes, target).tmpl]
    ELSE LET id == Len(nodes)
             frag == [MkNode("frag", "", <<>>, <<>>, <<>>, <<>>) EXCEPT !.host = target] IN
         [nodes |-> [Append(nodes, frag) EXCEPT ![target + 1].tmpl = id], ret |-> id]

\* ---- maybe clone an option into selectedcontent (WHATWG form-elements, select) -------------
\* Clones get no handle: a cloned subtree is stored as a value entry holding its canonical form.
ValueE(tree) == [t |-> "v", tree |-> tree]
S_datalist == <<100, 97, 116, 97, 108, 105, 115, 116>>
S_hr == <<104, 114>>
S_optgroup == <<111, 112, 116, 103, 114, 111, 117, 112>>
S_selectedcontent == <<115, 101, 108, 101, 99, 116, 101, 100, 99, 111, 110, 116, 101, 110, 116>>
S_selected == <<115, 101, 108, 101, 99, 116, 101, 100>>
S_multiple == <<109, 117, 108, 116, 105, 112, 108, 101>>
HasAttr(n, name) == \E i \in DOMAIN n.attrs : n.attrs[i].local = name

\* "option element nearest ancestor select": -1 if none
RECURSIVE NearestSelect(_, _, _)
NearestSelect(nodes, x, seenOptgroup) ==
    LET p == N(nodes, x).parent IN
    IF p = -1 THEN -1
    ELSE LET n == N(nodes, p) IN
         IF n.k # "el" THEN NearestSelect(nodes, p, seenOptgroup)
         ELSE IF n.local \in {S_datalist, S_hr, S_option} THEN -1
         ELSE IF n.local = S_optgroup THEN (IF seenOptgroup THEN -1 ELSE NearestSelect(nodes, p, TRUE))
         ELSE IF n.local = S_select THEN p
         ELSE NearestSelect(nodes, p, seenOptgroup)

\* first selectedcontent element among the descendants of the entries `ch`, in tree order; -1 if none
RECURSIVE FirstSelectedContent(_, _, _)
FirstSelectedContent(nodes, ch, i) ==
    IF i > Len(ch) THEN -1
    ELSE IF ch[i].t # "n" THEN FirstSelectedContent(nodes, ch, i + 1)
    ELSE LET c == ch[i].id
             n == N(nodes, c) IN
         IF n.k = "el" /\ n.local = S_selectedcontent THEN c
         ELSE LET inner == FirstSelectedContent(nodes, n.ch, 1) IN
              IF inner # -1 THEN inner ELSE FirstSelectedContent(nodes, ch, i + 1)

-----------------------------------------------------------------------------
(* the calling contract (C05): what the trait's documentation promises the sink *)

\* append: "The child node will not already have a parent"; never under itself or a descendant
PreAppendNode(nodes, p, c) ==
    /\ Known(nodes, p) /\ Known(nodes, c)
    /\ N(nodes, c).parent = -1
    /\ ~InclAncestor(nodes, c, p)
PreAppendText(nodes, p) == Known(nodes, p)

\* append_before_sibling: sibling is a non-text node (it has a handle); new_node may have an
\* old parent; never under itself or a descendant
PreInsertNodeBefore(nodes, sib, c) ==
    /\ Known(nodes, sib) /\ Known(nodes, c)
    /\ (N(nodes, sib).parent # -1 => ~InclAncestor(nodes, c, N(nodes, sib).parent))
    /\ c # sib
PreElemOnly(nodes, id) == IsEl(nodes, id)
PreTemplateContents(nodes, id) == IsHtmlEl(nodes, id, S_template) /\ N(nodes, id).tmpl # -1
PreCloneOption(nodes, id) == IsHtmlEl(nodes, id, S_option)
PreReparent(nodes, node, np) == Known(nodes, node) /\ Known(nodes, np) /\ (~InclAncestor(nodes, node, np) \/ N(nodes, node).ch = <<>>)
\* a doctype is appended at most once and before any element child of the document
PreDoctype(nodes) == \A i \in DOMAIN nodes[1].ch : nodes[1].ch[i].t \notin {"d"} /\ ~(nodes[1].ch[i].t = "n" /\ N(nodes, nodes[1].ch[i].id).k = "el")

-----------------------------------------------------------------------------
(* canonical, id-free form (same shape as the harness's dump of RcDom) *)

RECURSIVE CanonCh(_, _)
CanonNode(nodes, id) ==
    LET n == N(nodes, id) IN
    CASE n.k = "el" -> [k |-> "el", ns |-> n.ns, local |-> n.local, attrs |-> n.attrs, ch |-> CanonCh(nodes, n.ch),
                        tmpl |-> IF n.tmpl = -1 THEN <<>> ELSE IF n.tmpl = -2 THEN <<<<>>>> ELSE <<CanonCh(nodes, N(nodes, n.tmpl).ch)>>]
      [] n.k = "comment" -> [k |-> "comment", s |-> n.s]
      [] n.k = "pi" -> [k |-> "pi", target |-> n.tg, data |-> n.s]
      [] n.k = "doc" -> [k |-> "doc", ch |-> CanonCh(nodes, n.ch)]
      [] OTHER -> [k |-> n.k]
CanonCh(nodes, ch) ==
    [i \in DOMAIN ch |->
        CASE ch[i].t = "n" -> CanonNode(nodes, ch[i].id)
          [] ch[i].t = "t" -> [k |-> "text", s |-> ch[i].s]
          [] ch[i].t = "v" -> ch[i].tree
          [] OTHER -> [k |-> "doctype", name |-> ch[i].name, pub |-> ch[i].pub, sys |-> ch[i].sys]]

\* deep copies of the option's children replace the children of the select's first
\* selectedcontent descendant (tree order), when the option is selected and the select is not
\* a multiple select
MaybeCloneOption(nodes, opt) ==
    LET sel == NearestSelect(nodes, opt, FALSE) IN
    IF sel = -1 \/ HasAttr(N(nodes, sel), S_multiple) \/ ~HasAttr(N(nodes, opt), S_selected) THEN nodes
    ELSE LET sc == FirstSelectedContent(nodes, N(nodes, sel).ch, 1) IN
         IF sc = -1 THEN nodes
         ELSE LET copies == CanonCh(nodes, N(nodes, opt).ch)
                  old == {N(nodes, sc).ch[i].id : i \in {j \in DOMAIN N(nodes, sc).ch : N(nodes, sc).ch[j].t = "n"}} IN
              [i \in DOMAIN nodes |->
                  IF i = sc + 1 THEN [nodes[i] EXCEPT !.ch = [j \in DOMAIN copies |->
                                                IF copies[j].k = "text" THEN TextE(copies[j].s) ELSE ValueE(copies[j])]]
                  ELSE IF (i - 1) \in old THEN [nodes[i] EXCEPT !.parent = -1]
                  ELSE nodes[i]]

\* parent links and child lists agree (an invariant of the model itself)
LinksConsistent(nodes) ==
    \A i \in DOMAIN nodes :
        /\ \A j \in DOMAIN nodes[i].ch : nodes[i].ch[j].t = "n" => N(nodes, nodes[i].ch[j].id).parent = i - 1
        /\ nodes[i].parent # -1 => \E j \in DOMAIN N(nodes, nodes[i].parent).ch :
                                      N(nodes, nodes[i].parent).ch[j] = NodeE(i - 1)

-----------------------------------------------------------------------------
(* C06: the canonical document skeleton, on the nested canonical form *)

S_html == <<104, 116, 109, 108>>
S_head == <<104, 101, 97, 100>>
S_body == <<98, 111, 100, 121>>
S_frameset == <<102, 114, 97, 109, 101, 115, 101, 116>>
S_noframes == <<110, 111, 102, 114, 97, 109, 101, 115>>
RECURSIVE ElChildren(_, _)
ElChildren(ch, i) == IF i > Len(ch) THEN <<>> ELSE IF ch[i].k = "el" THEN <<ch[i]>> \o ElChildren(ch, i + 1) ELSE ElChildren(ch, i + 1)
IsHtmlNamed(x, name) == x.k = "el" /\ x.ns = "html" /\ x.local = name
AllWs(s) == \A i \in DOMAIN s : IsWsCr(s[i])

\* text well-formedness everywhere: no empty text node, no two adjacent text nodes; only elements
\* (and template contents) have children
RECURSIVE TextOk(_)
TextOk(x) ==
    CASE x.k = "el" ->
            /\ \A i \in DOMAIN x.ch : (x.ch[i].k = "text" => x.ch[i].s # <<>> /\ (i > 1 => x.ch[i - 1].k # "text")) /\ TextOk(x.ch[i])
            /\ (x.tmpl # <<>> =>
                   \A i \in DOMAIN x.tmpl[1] : (x.tmpl[1][i].k = "text" => x.tmpl[1][i].s # <<>> /\ (i > 1 => x.tmpl[1][i - 1].k # "text"))
                                               /\ TextOk(x.tmpl[1][i]))
      [] OTHER -> TRUE

Skeleton(doc) ==
    LET ch == doc.ch
        els == {i \in DOMAIN ch : ch[i].k = "el"}
        dts == {i \in DOMAIN ch : ch[i].k = "doctype"} IN
    /\ doc.k = "doc"
    /\ Cardinality(dts) <= 1
    /\ \A i \in dts : \A j \in 1..(i - 1) : ch[j].k = "comment"          \* doctype preceded only by comments
    /\ \A i \in DOMAIN ch : ch[i].k # "text"                               \* text is never a child of the document
    /\ Cardinality(els) = 1
    /\ \A i \in els :
        LET h == ch[i]
        IN  /\ IsHtmlNamed(h, S_html)
            /\ \A j \in DOMAIN h.ch : h.ch[j].k = "text" => AllWs(h.ch[j].s)      \* only whitespace text under html
            /\ LET e == ElChildren(h.ch, 1) IN
               /\ Len(e) >= 2
               /\ IsHtmlNamed(e[1], S_head)
               /\ \/ (IsHtmlNamed(e[2], S_body) /\ Len(e) = 2)
                  \* "optionally followed by noframes": zero or more noframes elements - the after-frameset and
                  \* after-after-frameset modes insert one for every noframes start tag, so WHATWG itself yields several
                  \/ (IsHtmlNamed(e[2], S_frameset) /\ \A k \in 3..Len(e) : IsHtmlNamed(e[k], S_noframes))
            /\ TextOk(h)
=============================================================================
