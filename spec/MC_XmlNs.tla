------------------------------ MODULE MC_XmlNs ------------------------------
(***************************************************************************)
(* L1: xml5ever's namespace handling as the tree builder does it -- a      *)
(* stack of declaration maps pushed for start tags (and the script empty   *)
(* tag), popped with every popped element, error recovery popping several  *)
(* elements, short end tags -- against L0 (XmlNamespaces: lexical scope    *)
(* over the open-element chain).  All tag sequences up to MaxTags over a   *)
(* small vocabulary; each explored sequence is exported and replayed on    *)
(* the real parser.                                                        *)
(***************************************************************************)
EXTENDS XmlNamespaces, TLC, Json

CONSTANTS MaxTags, DoExport
VARIABLES items, open, nsStack, phase, ok

vars == <<items, open, nsStack, phase, ok>>

P(x) == <<x>>
A(pre, l, v) == [prefix |-> pre, local |-> l, v |-> v]
T(k, pre, l, attrs) == [k |-> k, prefix |-> pre, local |-> l, attrs |-> attrs]
c_a == <<97>>      c_b == <<98>>      c_p == <<112>>     c_q == <<113>>     c_x == <<120>>
c_u == <<117>>     c_v == <<118>>     c_script == <<115, 99, 114, 105, 112, 116>>

AttrSets == { <<>>, <<A(<<>>, S_xmlns, c_u)>>, <<A(<<>>, S_xmlns, <<>>)>>, <<A(P(S_xmlns), c_p, c_u)>>, <<A(P(S_xmlns), c_p, c_v)>>,
              <<A(P(S_xmlns), c_p, <<>>)>>, <<A(P(S_xmlns), c_q, c_u), A(<<>>, S_xmlns, c_v)>>,
              <<A(P(c_p), c_x, <<49>>), A(<<>>, c_x, <<50>>)>>, <<A(<<>>, c_x, <<49>>), A(P(c_p), c_x, <<50>>), A(P(S_xmlns), c_p, c_u)>>,
              <<A(P(c_p), c_x, <<49>>), A(P(c_q), c_x, <<50>>), A(P(S_xmlns), c_p, c_u), A(P(S_xmlns), c_q, c_u)>> }
Names == { <<<<>>, c_a>>, <<P(c_p), c_a>>, <<P(c_q), c_b>>, <<<<>>, c_script>> }
Tags == { T(k, n[1], n[2], at) : k \in {"start", "empty"}, n \in Names, at \in AttrSets }
        \cup { T("end", n[1], n[2], <<>>) : n \in Names } \cup { T("short", <<>>, <<>>, <<>>) }

\* open: sequence of [tag, ns] (created elements still open); nsStack: sequence of declaration lists
Init == items = <<>> /\ open = <<>> /\ nsStack = <<>> /\ phase = "start" /\ ok = TRUE

\* find_uri as the code does it: ancestors' maps then the current one, nearest first
L1Chain(cur) == <<cur>> \o [i \in 1..Len(nsStack) |-> nsStack[Len(nsStack) - i + 1]]
L0Chain(cur) == <<cur>> \o [i \in 1..Len(open) |-> DeclsOf(open[Len(open) - i + 1].tag.attrs)]

PopN(n) == /\ open' = SubSeq(open, 1, Len(open) - n) /\ nsStack' = SubSeq(nsStack, 1, Len(nsStack) - n)

Feed(t) ==
    /\ items' = Append(items, t)
    /\ IF phase = "end" THEN UNCHANGED <<open, nsStack, phase, ok>>
       ELSE IF t.k \in {"start", "empty"} THEN
           LET cur == DeclsOf(t.attrs)
               l1 == ElementNs(L1Chain(cur), t.prefix)
               l0 == ElementNs(L0Chain(cur), t.prefix)
               a1 == PlainAttrs(t.attrs, L1Chain(cur))
               a0 == PlainAttrs(t.attrs, L0Chain(cur)) IN
           /\ ok' = (l1 = l0 /\ a1 = a0)
           /\ IF t.k = "start" THEN /\ open' = Append(open, [tag |-> t, ns |-> l1]) /\ nsStack' = Append(nsStack, cur) /\ phase' = "main"
              ELSE \* empty tag: nothing stays open (the script special case pushes and pops at once)
                   /\ UNCHANGED <<open, nsStack>> /\ phase' = (IF phase = "start" THEN "end" ELSE phase)
       ELSE IF phase = "start" THEN UNCHANGED <<open, nsStack, phase, ok>>
       ELSE IF t.k = "short" THEN PopN(1) /\ phase' = (IF Len(open) = 1 THEN "end" ELSE "main") /\ UNCHANGED ok
       ELSE \* end tag: close the nearest open element with the same expanded name, if any
            LET ns == ElementNs(L1Chain(<<>>), t.prefix)
                idx == {i \in DOMAIN open : open[i].tag.local = t.local /\ open[i].ns = ns} IN
            IF idx = {} THEN UNCHANGED <<open, nsStack, phase, ok>>
            ELSE LET i == CHOOSE j \in idx : \A m \in idx : m <= j IN
                 PopN(Len(open) - i + 1) /\ phase' = (IF i = 1 THEN "end" ELSE "main") /\ UNCHANGED ok

Next == Len(items) < MaxTags /\ \E t \in Tags : Feed(t)
Spec == Init /\ [][Next]_vars

ScopeRefines == ok                                  \* the stack discipline computes lexical scope
StackBalanced == Len(nsStack) = Len(open)           \* (the code keeps one extra bottom map with the fixed prefixes)
Export == (DoExport /\ Len(items) = MaxTags) => PrintT(<<"REPLAY", ToJson([items |-> items])>>)
=============================================================================
