#!/usr/bin/env python3
"""usage: tools_dbgtok.py trace.ndjson case-id...   (development aid: expected vs got)"""
import json, subprocess, sys, os
f = sys.argv[1]; ids = set(int(x) for x in sys.argv[2:])
tmp = '/verif/work/dbg.ndjson'
with open(tmp, 'w') as o:
    for l in open(f):
        if json.loads(l).get('case') in ids:
            o.write(l)
env = dict(os.environ, TRACE=tmp)
p = subprocess.run(['java', '-Xss1g', '-cp', '/opt/veriftools/tla/tla2tools.jar:/opt/veriftools/tla/CommunityModules-deps.jar', 'tlc2.TLC',
                    '-workers', '1', '-metadir', '/verif/work/tlc/dbg', '-cleanup', '-noGenerateSpecTE', '-config', 'Trace_HtmlTok.cfg',
                    os.environ.get('DBGMOD', 'Debug_HtmlTok.tla')], cwd='/verif/spec', env=env, stdout=subprocess.PIPE, stderr=subprocess.STDOUT, text=True)
def txt(a):
    return ''.join(chr(c) for c in a)
def show(t):
    k = t['k']
    if k == 'chars': return 'chars(%r)' % txt(t['s'])
    if k in ('start', 'end'):
        return '%s(%s %s sc=%s dup=%s)' % (k, txt(t['name']), [(txt(a['n']), txt(a['v'])) for a in t['attrs']], t['sc'], t['dup'])
    if k == 'comment': return 'comment(%r)' % txt(t['s'])
    if k == 'doctype': return 'doctype(%s %s %s fq=%s)' % ([txt(x) for x in t['name']], [txt(x) for x in t['pub']], [txt(x) for x in t['sys']], t['fq'])
    return k
seen = False
for line in p.stdout.splitlines():
    i = line.find('"DBG", "')
    if i < 0: continue
    seen = True
    body = line[i + 7:].rstrip()
    if body.endswith('>>'): body = body[:-2]
    d = json.loads(json.loads(body))
    print('CASE', d['case'], d['state'], repr(txt(d['inp'])))
    print('  EXP', ' '.join(show(t) for t in d['exp']))
    print('  GOT', ' '.join(show(t) for t in d['got']))
if not seen:
    print(p.stdout[-3000:])
