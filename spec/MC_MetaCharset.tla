--------------------------- MODULE MC_MetaCharset ---------------------------
(***************************************************************************)
(* All content-attribute strings of at most MaxPieces pieces: every        *)
(* position of "charset", whitespace, "=", quoting, terminators and        *)
(* truncation.  Invariants on the extraction algorithm; every string is    *)
(* exported and replayed through the real tree builder.                    *)
(***************************************************************************)
EXTENDS MetaCharset, TLC, Json
CONSTANTS MaxPieces, DoExport
VARIABLES s, n
Pieces == { S_charset, <<67, 72, 65, 82, 83, 69, 84>>, <<99, 104, 97, 114, 115>>, <<32>>, <<9>>, <<61>>, <<34>>, <<39>>, <<59>>,
            <<120>>, <<233>>, <<13>> }
Init == s = <<>> /\ n = 0
Next == n < MaxPieces /\ n' = n + 1 /\ \E p \in Pieces : s' = s \o p
Spec == Init /\ [][Next]_<<s, n>>

\* a returned label is a contiguous part of the string, contains no terminator of its kind
LabelIsSubstring == Extract(s) # <<>> => \E i \in 1..(Len(s) + 1), j \in 0..Len(s) : SubSeq(s, i, j) = Extract(s)[1]
NothingWithoutCharsetEq == (FindCharset(s, 1) = 0 \/ 61 \notin RangeOf(s)) => Extract(s) = <<>>
Export == DoExport => PrintT(<<"REPLAY", ToJson([content |-> s])>>)
=============================================================================
