----------------------------- MODULE Trace_Lines -----------------------------
(***************************************************************************)
(* C09 judge, literal to the statement: the line number passed with each   *)
(* token equals one plus the number of line breaks (LF, CR, or CRLF once)  *)
(* in the input consumed when the token is emitted.  `cons` is observed by *)
(* the harness-owned input queue (characters fed minus characters left).   *)
(***************************************************************************)
EXTENDS Preprocess, TLC, Json, IOUtils

Rec == ndJsonDeserialize(IOEnv.TRACE)
VARIABLES l
Init == l = 1

\* consumed count at the last non-error token before i (0 if none)
RECURSIVE PrevCons(_, _)
PrevCons(raw, i) == IF i = 0 THEN 0 ELSE IF raw[i].k # "err" THEN raw[i].cons ELSE PrevCons(raw, i - 1)

\* Parse-error tokens can be emitted by the character-reference sub-tokenizer while it still
\* holds look-ahead characters that it is about to push back, so the queue-level count is only
\* an upper bound of what has been consumed: the reported line must be the line of some
\* position between the previous token and that bound.  Every other token is emitted with no
\* look-ahead outstanding and is judged exactly.
TokOK(e, inp, i) ==
    IF e.raw[i].k = "err"
    THEN \E c \in PrevCons(e.raw, i - 1)..e.raw[i].cons : e.raw[i].line = 1 + Breaks(inp, c)
    ELSE e.raw[i].line = 1 + Breaks(inp, e.raw[i].cons)

Judge(e) ==
    LET inp == Flatten(e.chunks) IN
    /\ e.panic = <<>>
    /\ \A i \in DOMAIN e.raw : TokOK(e, inp, i)
    /\ e.raw # <<>> /\ e.raw[Len(e.raw)].k = "eof" /\ e.raw[Len(e.raw)].cons = Len(inp)

Next == /\ l <= Len(Rec)
        /\ l' = l + 1
        /\ (Judge(Rec[l]) \/ PrintT(<<"REJECT", l, Rec[l].case>>))

Spec == Init /\ [][Next]_l
AllConsumed == \/ TLCGet("stats").diameter = Len(Rec) + 1
               \/ PrintT(<<"NOT-CONSUMED", TLCGet("stats").diameter, Len(Rec)>>) /\ FALSE
=============================================================================
