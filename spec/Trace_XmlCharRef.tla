-------------------------- MODULE Trace_XmlCharRef --------------------------
(***************************************************************************)
(* C14 for xml5ever: the same finite character-reference domain placed in  *)
(* XML text (<r>T</r>) and in attribute values (<r a="T"/>, <r a='T'/>).   *)
(* The text / attribute value the XML tokenizer delivered must be T with   *)
(* every character reference replaced as L0 CharRef prescribes (longest    *)
(* match, legacy attribute exception, C1 remapping, U+FFFD for zero,       *)
(* surrogates and out-of-range values) and everything else left as it is.  *)
(***************************************************************************)
EXTENDS CharRef, TLC, Json, IOUtils

Rec == ndJsonDeserialize(IOEnv.TRACE)
VARIABLES l
Init == l = 1

RECURSIVE Resolve(_, _, _, _)
Resolve(x, i, attr, acc) ==
    IF i > Len(x) THEN acc
    ELSE IF x[i] = AMP THEN LET r == CharRefAt(x, i + 1, attr) IN Resolve(x, i + 1 + r.n, attr, acc \o r.chars)
    ELSE Resolve(x, i + 1, attr, Append(acc, x[i]))

Next == /\ l <= Len(Rec)
        /\ l' = l + 1
        /\ LET e == Rec[l] IN
           \/ (e.panic = <<>> /\ e.got = Resolve(e.x, 1, e.attr, <<>>))
           \/ PrintT(<<"REJECT", l, e.case>>)

Spec == Init /\ [][Next]_l
AllConsumed == \/ TLCGet("stats").diameter = Len(Rec) + 1
               \/ PrintT(<<"NOT-CONSUMED", TLCGet("stats").diameter, Len(Rec)>>) /\ FALSE
=============================================================================
