"""C06 - a parsed document always has the canonical html/head/body skeleton."""
from . import core
from .sinkcommon import run_sink_property

RULE = ("Final trees of real document parses (family enumerations incl. a dedicated html/head/body/frameset/noframes/"
        "template/table family, both scripting settings, chunked variants, random soup) are dumped from RcDom and TLC "
        "evaluates Dom!Skeleton, the statement clause by clause, on each.")


def run(tier, seed, replay=None):
    N = core.NCPU
    q = tier == "quick"
    plans = [
        ("enum-head-k4", ["parse", "--mode", "enum", "--family", "head", "--k", 4 if q else 5, "--pieces", 12], N),
        ("enum-skeleton-k4", ["parse", "--mode", "enum", "--family", "skeleton", "--k", 4 if q else 5, "--pieces", 13 if q else 16], N),
        ("enum-families-k3", ["parse", "--mode", "enum", "--k", 3, "--pieces", 12 if q else 16], N),
        ("random-chunked", ["parse", "--mode", "random", "--n", 800 if q else 10000, "--maxpieces", 14, "--chunk", "some"], N),
    ]
    return run_sink_property("C06", RULE, tier, seed, replay, plans,
                             ["fragment parses are outside the statement (it speaks of complete document parses)"],
                             mc=[("MC_Dom", "MC_Dom.tla", "MC_Dom.cfg", "MC_Dom_thorough.cfg")])
