----------------------------- MODULE MC_TokInput -----------------------------
(***************************************************************************)
(* L1 (TokInput: html5ever's input layer around the state machine) refines *)
(* L0 (HtmlTokenizer on the whole normalised input) for every input over   *)
(* the piece alphabet, every way of cutting it into at most MaxFeeds       *)
(* chunks (empty chunks included), exact_errors on/off (bulk + SIMD paths  *)
(* vs the character-at-a-time path), discard_bom on/off and every script   *)
(* pause injection from Injects.  Checked in every reachable state:        *)
(*   TokensRefine    tokens delivered at the end = L0 of the concatenation *)
(*   SameAsOnePiece  tokens and their lines = the one-piece L1 run (C03)   *)
(*   LineInv         current_line = 1 + Breaks(consumed prefix)      (C09) *)
(*   QueueDrained    feed() returning Done leaves the queue empty    (C04) *)
(*   PauseClean      no hidden look-ahead at a script suspension     (C03) *)
(*   OptsIrrelevant  exact_errors does not change the tokens         (C08) *)
(***************************************************************************)
EXTENDS TokInput, TLC

CONSTANTS MaxPieces, MaxFeeds, PieceSet, StartSet, Injects, BomOpts
VARIABLES cfgv, opts, input, pos, nfeeds, m, done, clean

vars == <<cfgv, opts, input, pos, nfeeds, m, done, clean>>

S_title == <<116, 105, 116, 108, 101>>
StdReplies ==
    << [k |-> "start", name |-> S_title, r |-> "rcdata"],
       [k |-> "start", name |-> S_script, r |-> "script_data"],
       [k |-> "end", name |-> S_script, r |-> "script"] >>

RECURSIVE PieceStrings(_)
PieceStrings(n) == IF n = 0 THEN {<<>>} ELSE LET prev == PieceStrings(n - 1) IN prev \cup {s \o p : s \in prev, p \in PieceSet}

Init == /\ cfgv \in { [state |-> st, last |-> <<>>, cdata |-> cd, replies |-> StdReplies,
                       inject |-> [i \in DOMAIN inj |-> Normalize(inj[i])], injectRaw |-> inj] :
                       st \in StartSet, cd \in {FALSE}, inj \in Injects }
        /\ opts \in { [exact |-> ex, bom |-> b] : ex \in BOOLEAN, b \in BomOpts }
        /\ input \in PieceStrings(MaxPieces)
        /\ pos = 0 /\ nfeeds = 0 /\ done = FALSE /\ clean = TRUE
        /\ m = L1Init(cfgv, opts)

FeedAct == /\ ~done /\ nfeeds < MaxFeeds
           /\ \E k \in 0..(Len(input) - pos) :
                /\ (nfeeds = MaxFeeds - 1 => k = Len(input) - pos)     \* the last feed takes the rest
                /\ LET m1 == FeedChunk(m, SubSeq(input, pos + 1, pos + k), cfgv) IN
                   /\ m' = m1
                   /\ pos' = pos + k
           /\ nfeeds' = nfeeds + 1
           /\ UNCHANGED <<cfgv, opts, input, done, clean>>

EndAct == /\ ~done /\ pos = Len(input)
          /\ m' = End(m, cfgv)
          /\ done' = TRUE
          /\ UNCHANGED <<cfgv, opts, input, pos, nfeeds, clean>>

Next == FeedAct \/ EndAct
Spec == Init /\ [][Next]_vars

\* ---------------------------------------------------------------------------
RawForL0 == IF opts.bom THEN StripBom(input) ELSE input
OnePiece(o) == End(FeedChunk(L1Init(cfgv, o), input, cfgv), cfgv)

TokensRefine == done => TokView(m) = StripAll(Tokenize(cfgv, Normalize(RawForL0)))

SameAsOnePiece == done => LET r == OnePiece(opts) IN TokView(m) = TokView(r) /\ m.tl = r.tl

OptsIrrelevant == done => TokView(m) = TokView(OnePiece([exact |-> ~opts.exact, bom |-> opts.bom]))

\* no script injection in LineInv: the consumed prefix is a prefix of `input` then
LineInv == (~done /\ cfgv.injectRaw = <<>>) =>
              m.line = 1 + Breaks(input, pos - Len(QFlat(m.q)) - LookAhead(m))

QueueDrained == (~done /\ m.susp = "suspend") => m.q = <<>>

OneEofLast == done => LET t == m.tz.toks IN t # <<>> /\ t[Len(t)].k = "eof" /\ \A i \in 1..(Len(t) - 1) : t[i].k # "eof"

\* constants ------------------------------------------------------------------
MC_Pieces == { <<CR>>, <<LF>>, <<BOM>>, <<LT>>, <<BANG>>, <<DASH>>, <<GT>>, <<SLASH>>, <<97>>, <<AMP>>, <<HASH>>,
               <<SEMI>>, <<EQUALS>>, <<DQ>>, <<NUL>>, <<SP>>, <<49>>,
               S_doctype, <<80, 85, 66, 76, 73, 67>>, <<97, 109, 112>>, <<110, 111, 116, 105, 116>>,
               <<60, 47, 115, 99, 114, 105, 112, 116, 62>>, <<60, 115, 99, 114, 105, 112, 116, 62>> }
MC_PiecesQuick == { <<CR>>, <<LF>>, <<BOM>>, <<LT>>, <<BANG>>, <<DASH>>, <<GT>>, <<97>>, <<AMP>>, <<EQUALS>>, <<SP>>,
                    S_doctype, <<97, 109, 112>>, <<60, 47, 115, 99, 114, 105, 112, 116, 62>> }
MC_Starts == {"Data", "RawData.Rcdata", "RawData.ScriptData", "BeforeAttributeName", "MarkupDeclarationOpen", "DoctypeName", "AfterDoctypeName"}
MC_StartsQuick == {"Data", "BeforeAttributeName", "DoctypeName"}
MC_StartsBav == {"BeforeAttributeValue", "AttributeName"}
MC_PiecesBav == { <<CR>>, <<LF>>, <<LT>>, <<GT>>, <<97>>, <<EQUALS>>, <<SP>>, <<DQ>>, <<AMP>> }
MC_Injects == { <<>>, <<<<120>>>>, <<<<LF>>, <<60, 98, 62>>>>, <<<<BOM, 97>>>> }
MC_NoInjects == { <<>> }
=============================================================================
