SPECIFICATION Spec
CONSTANTS
  MaxTags = 4
  DoExport = TRUE
INVARIANTS ScopeRefines StackBalanced Export
CHECK_DEADLOCK FALSE
