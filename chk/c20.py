"""C20 - RcDom materialises sink operations faithfully."""
from . import core
from .sinkcommon import run_sink_property

RULE = ("The sink-call stream of real parses (family enumerations, fragments, random soup) and direct random valid "
        "operation sequences are applied both to RcDom (by the harness) and to the abstract Dom specification (by TLC); "
        "TLC compares RcDom's final tree, dumped in document order, with the canonical form of the abstract DOM, and "
        "checks parent links against child lists; MC_Dom explores all valid operation sequences over a small node pool "
        "and exports them for replay on RcDom.")


def run(tier, seed, replay=None):
    N = core.NCPU
    q = tier == "quick"
    plans = [
        ("xml-soup", ["xml", "--mode", "sink", "--gen", "text", "--n", 1500 if q else 20000], N),
        ("xml-structured", ["xml", "--mode", "sink", "--n", 1500 if q else 20000], N),
        ("enum-families-k3", ["parse", "--mode", "enum", "--k", 3, "--pieces", 12 if q else 16], N),
        ("selectedcontent-directed", ["parse", "--mode", "selectedcontent", "--k", 3 if q else 4], N),
        ("random", ["parse", "--mode", "random", "--n", 1500 if q else 20000, "--maxpieces", 14], N),
        ("random-ops", ["rcdom", "--n", 2000 if q else 30000], N),
    ]
    return run_sink_property("C20", RULE, tier, seed, replay, plans,
                             ["text nodes have no handle in the TreeSink API and are compared by position/content"],
                             mc=[("MC_Dom", "MC_Dom.tla", "MC_Dom.cfg", "MC_Dom_thorough.cfg")], mc_replay=["rcdom", "--replay"])
