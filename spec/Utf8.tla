-------------------------------- MODULE Utf8 --------------------------------
(***************************************************************************)
(* L0: well-formed UTF-8 (Unicode Table 3-7) and lossy decoding with one   *)
(* U+FFFD per maximal ill-formed subsequence ("maximal subpart" practice,  *)
(* the behaviour of String::from_utf8_lossy).                              *)
(* L1: tendril's streaming Utf8LossyDecoder -- the IncompleteUtf8 carry    *)
(* buffer, try_complete_offsets, the process loop and finish().            *)
(***************************************************************************)
EXTENDS Chars

IsCont(b) == b >= 128 /\ b <= 191

\* number of bytes the lead byte announces; 0 = not a lead byte
SeqLen(b) == IF b < 128 THEN 1
             ELSE IF b >= 194 /\ b <= 223 THEN 2
             ELSE IF b >= 224 /\ b <= 239 THEN 3
             ELSE IF b >= 240 /\ b <= 244 THEN 4
             ELSE 0

\* allowed range of the second byte, by lead byte (Table 3-7)
SecondOk(lead, b) ==
    CASE lead = 224 -> b >= 160 /\ b <= 191
      [] lead = 237 -> b >= 128 /\ b <= 159
      [] lead = 240 -> b >= 144 /\ b <= 191
      [] lead = 244 -> b >= 128 /\ b <= 143
      [] OTHER -> IsCont(b)

\* At position i of bs: how many bytes (>= 1) belong to the longest prefix of a
\* well-formed sequence starting there.  Result <<kind, n>>:
\*   "ok"   - a complete well-formed sequence of n bytes
\*   "bad"  - ill-formed; the maximal subpart is n bytes (n >= 1)
\*   "trunc"- input ended inside a so-far well-formed sequence of n bytes
Classify(bs, i) ==
    LET lead == bs[i]
        need == SeqLen(lead) IN
    IF need = 0 THEN <<"bad", 1>>
    ELSE IF need = 1 THEN <<"ok", 1>>
    ELSE LET Ok(j) == i + j <= Len(bs) /\ (IF j = 1 THEN SecondOk(lead, bs[i + 1]) ELSE IsCont(bs[i + j]))
             \* j = number of matched continuation bytes
             m == IF ~Ok(1) THEN 0 ELSE IF need = 2 \/ ~Ok(2) THEN 1 ELSE IF need = 3 \/ ~Ok(3) THEN 2 ELSE 3
         IN  IF m = need - 1 THEN <<"ok", need>>
             ELSE IF i + m + 1 > Len(bs) THEN <<"trunc", m + 1>>
             ELSE <<"bad", m + 1>>

Scalar(bs, i, n) ==
    CASE n = 1 -> bs[i]
      [] n = 2 -> (bs[i] - 192) * 64 + (bs[i + 1] - 128)
      [] n = 3 -> (bs[i] - 224) * 4096 + (bs[i + 1] - 128) * 64 + (bs[i + 2] - 128)
      [] n = 4 -> (bs[i] - 240) * 262144 + (bs[i + 1] - 128) * 4096 + (bs[i + 2] - 128) * 64 + (bs[i + 3] - 128)

\* Lossy(bs) = [cps |-> decoded code points, nerr |-> number of replacements made]
RECURSIVE LossyFrom(_, _, _, _)
LossyFrom(bs, i, acc, nerr) ==
    IF i > Len(bs) THEN [cps |-> acc, nerr |-> nerr]
    ELSE LET c == Classify(bs, i) IN
         IF c[1] = "ok" THEN LossyFrom(bs, i + c[2], Append(acc, Scalar(bs, i, c[2])), nerr)
         ELSE LossyFrom(bs, i + c[2], Append(acc, REPL), nerr + 1)

Lossy(bs) == LossyFrom(bs, 1, <<>>, 0)

WellFormed(bs) == Lossy(bs).nerr = 0

-----------------------------------------------------------------------------
(* std::str::from_utf8 as the code uses it: Ok, or (valid_up_to, error_len)  *)
(* with error_len = 0 standing for None (truncated at the end).            *)

RECURSIVE FromUtf8At(_, _)
FromUtf8At(bs, i) ==
    IF i > Len(bs) THEN [ok |-> TRUE, upto |-> Len(bs), elen |-> 0]
    ELSE LET c == Classify(bs, i) IN
         IF c[1] = "ok" THEN FromUtf8At(bs, i + c[2])
         ELSE [ok |-> FALSE, upto |-> i - 1, elen |-> IF c[1] = "trunc" THEN 0 ELSE c[2]]

FromUtf8(bs) == FromUtf8At(bs, 1)

\* decode a byte string known to be well formed
Decode(bs) == Lossy(bs).cps

-----------------------------------------------------------------------------
(* L1 state: inc = carried incomplete bytes (<<>> = None), out = code points *)
(* delivered so far (pieces concatenated), nerr = error() calls, npieces.    *)

L1Init == [inc |-> <<>>, out |-> <<>>, nerr |-> 0]

\* IncompleteUtf8::try_complete_offsets + try_to_complete_codepoint
\* returns [res |-> "none" | "valid" | "malformed", consumed |-> n, buf |-> bytes taken]
TryComplete(inc, input) ==
    LET ilen == Len(inc)
        copied == MinN(4 - ilen, Len(input))
        spliced == inc \o Take(input, copied)
        f == FromUtf8(spliced) IN
    IF f.ok THEN [res |-> "valid", consumed |-> copied, buf |-> spliced]
    ELSE IF f.upto > 0 THEN [res |-> "valid", consumed |-> f.upto - ilen, buf |-> Take(spliced, f.upto)]
    ELSE IF f.elen > 0 THEN [res |-> "malformed", consumed |-> f.elen - ilen, buf |-> Take(spliced, f.elen)]
    ELSE [res |-> "none", consumed |-> copied, buf |-> spliced]

\* the `while !bytes.is_empty()` loop of process()
RECURSIVE L1Loop(_, _)
L1Loop(st, bytes) ==
    IF bytes = <<>> THEN st
    ELSE LET f == FromUtf8(bytes) IN
         IF f.ok THEN [st EXCEPT !.out = @ \o Decode(bytes)]
         ELSE LET st1 == [st EXCEPT !.out = @ \o Decode(Take(bytes, f.upto))] IN
              IF f.elen = 0 THEN [st1 EXCEPT !.inc = Drop(bytes, f.upto)]
              ELSE L1Loop([st1 EXCEPT !.out = Append(@, REPL), !.nerr = @ + 1], Drop(bytes, f.upto + f.elen))

L1Process(st, bytes) ==
    IF st.inc # <<>> THEN
        LET t == TryComplete(st.inc, bytes) IN
        IF t.res = "none" THEN [st EXCEPT !.inc = t.buf]
        ELSE IF t.res = "valid" THEN L1Loop([st EXCEPT !.inc = <<>>, !.out = @ \o Decode(t.buf)], Drop(bytes, t.consumed))
        ELSE L1Loop([st EXCEPT !.inc = <<>>, !.out = Append(@, REPL), !.nerr = @ + 1], Drop(bytes, t.consumed))
    ELSE L1Loop(st, bytes)

L1Finish(st) ==
    IF st.inc # <<>> THEN [st EXCEPT !.inc = <<>>, !.out = Append(@, REPL), !.nerr = @ + 1] ELSE st
=============================================================================
