#!/bin/bash
# usage: tools_seed2.sh <name> <prop> <seed_dir> <worktree> "<needs>" [extra props]   (reads run.txt in the seed dir)
name=$1; prop=$2; seed=$3; wt=$4; needs=$5; shift 5
dest=$(sed -n 1p $seed/run.txt); cmd=$(sed -n 2p $seed/run.txt)
python3 /verif/tools_seed.py "$name" "$prop" "$seed" "$wt" "$dest" "$cmd" "$needs" "$@" 2>&1 | tail -4
