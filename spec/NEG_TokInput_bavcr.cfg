SPECIFICATION Spec
CONSTANTS
  Defects = {"bav_reconsume_after_crlf"}
  MaxPieces = 4
  MaxFeeds = 3
  PieceSet <- MC_PiecesBav
  StartSet <- MC_StartsBav
  Injects <- MC_NoInjects
  BomOpts = {FALSE}
INVARIANTS TokensRefine
CHECK_DEADLOCK FALSE
