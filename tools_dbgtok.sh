#!/bin/sh
# usage: tools_dbgtok.sh trace.ndjson case-id...   (development aid)
f=$1; shift
tmp=/verif/work/dbg.ndjson; : > $tmp
for c in "$@"; do jq -c "select(.case==$c)" $f >> $tmp; done
cd /verif/spec && TRACE=$tmp java -Xss1g -cp /opt/veriftools/tla/tla2tools.jar:/opt/veriftools/tla/CommunityModules-deps.jar tlc2.TLC -workers 1 -metadir /verif/work/tlc/dbg -cleanup -noGenerateSpecTE -config Trace_HtmlTok.cfg Debug_HtmlTok.tla 2>&1 | grep -E '^<<"(CASE|EXP|GOT)"'
