----------------------------- MODULE Trace_Sink -----------------------------
(***************************************************************************)
(* Trace validation of the sink-call stream a tree builder produced on a   *)
(* real parse (monitoring sink around RcDom, token recorder in front of    *)
(* the tree builder).  The events must be a behaviour of Dom:              *)
(*   C05  every call satisfies the documented calling contract;            *)
(*   C18  no call receives a node that a collection at an earlier          *)
(*        suspension point (keeping only what trace_handles reported and   *)
(*        everything connected to it) would have discarded;                *)
(*   C20  RcDom's final tree = the abstract DOM computed from the calls,   *)
(*        parent links consistent;                                         *)
(*   C06  the final document has the canonical skeleton;                   *)
(*   C04  no panic, one EOF.                                               *)
(* PROP (environment) selects which property's conjuncts decide.           *)
(***************************************************************************)
EXTENDS Dom, MetaCharset, TLC, Json, IOUtils

Rec == ndJsonDeserialize(IOEnv.TRACE)
Prop == IOEnv.PROP

VARIABLES l, nodes, dead, skipping, mode, cur, metaId, metaIn, ln
vars == <<l, nodes, dead, skipping, mode, cur, metaId, metaIn, ln>>
\* ln (C09): [cur: line given with the token being processed, fwd: line last forwarded through set_current_line,
\*           tok: a token of the HTML tokenizer is being processed]
\* cur: the token being processed by the tree builder ([k |-> "none"] outside a token);
\* metaId / metaIn: HTML meta element created / inserted while processing it (C19)

NoTok == [k |-> "none"]
S_meta == <<109, 101, 116, 97>>
Init == l = 1 /\ nodes = InitNodes /\ dead = {} /\ skipping = FALSE /\ mode = "doc"
        /\ cur = NoTok /\ metaId = -1 /\ metaIn = FALSE /\ ln = [cur |-> 1, fwd |-> 1, tok |-> FALSE]

AttrRecs(a) == [i \in DOMAIN a |-> [ns |-> a[i].ns, prefix |-> a[i].prefix, local |-> a[i].local, v |-> a[i].v]]

\* result of one sink call: new nodes, contract verdict, node ids the call used
R(n, pre, uses) == [nodes |-> n, pre |-> pre, uses |-> uses]

ApplyChild(n, e, parentLike) ==    \* append-like with a NodeOrText
    IF e.k = "node" THEN R(AppendNodeTo(n, parentLike, e.child), PreAppendNode(n, parentLike, e.child), {parentLike, e.child})
    ELSE R(AppendTextTo(n, parentLike, e.text), PreAppendText(n, parentLike), {parentLike})

ApplyBefore(n, e, sib) ==
    IF e.k = "node"
    THEN R(IF Known(n, sib) /\ Known(n, e.child) /\ N(n, sib).parent # -1 THEN InsertNodeBefore(n, sib, e.child) ELSE n,
           PreInsertNodeBefore(n, sib, e.child), {sib, e.child})
    ELSE R(IF Known(n, sib) /\ N(n, sib).parent # -1 THEN InsertTextBefore(n, sib, e.text) ELSE n, Known(n, sib), {sib})

Apply(n, e) ==
    CASE e.ev = "create_element" ->
            R(CreateElement(n, e.ns, e.local, AttrRecs(e.attrs), e.template), e.id = Len(n) /\ (QNamesDistinct(e.attrs) /\ AttrsDistinct(e.attrs)), {})
      [] e.ev = "create_comment" -> R(Create(n, MkNode("comment", "", <<>>, <<>>, e.text, <<>>)), e.id = Len(n), {})
      [] e.ev = "create_pi" -> R(Create(n, MkNode("pi", "", <<>>, <<>>, e.data, e.target)), e.id = Len(n), {})
      [] e.ev = "append" -> IF Known(n, e.parent) /\ (e.k = "text" \/ Known(n, e.child)) THEN ApplyChild(n, e, e.parent) ELSE R(n, FALSE, {})
      [] e.ev = "append_before_sibling" -> ApplyBefore(n, e, e.sibling)
      [] e.ev = "append_based_on_parent_node" ->
            IF ~(Known(n, e.element) /\ Known(n, e.prev)) THEN R(n, FALSE, {})
            ELSE IF N(n, e.element).parent # -1
                 THEN LET r == ApplyBefore(n, e, e.element) IN R(r.nodes, r.pre, r.uses \cup {e.prev})
                 ELSE LET r == ApplyChild(n, e, e.prev) IN R(r.nodes, r.pre, r.uses \cup {e.element})
      [] e.ev = "append_doctype" -> R(AppendDoctype(n, e.name, e.pub, e.sys), PreDoctype(n), {})
      [] e.ev = "remove_from_parent" -> R(IF Known(n, e.target) THEN Detach(n, e.target) ELSE n, Known(n, e.target), {e.target})
      [] e.ev = "reparent_children" ->
            R(IF Known(n, e.node) /\ Known(n, e.new_parent) THEN ReparentChildren(n, e.node, e.new_parent) ELSE n,
              PreReparent(n, e.node, e.new_parent), {e.node, e.new_parent})
      [] e.ev = "add_attrs_if_missing" ->
            R(IF IsEl(n, e.target) THEN AddAttrsIfMissing(n, e.target, AttrRecs(e.attrs)) ELSE n,
              PreElemOnly(n, e.target) /\ (QNamesDistinct(e.attrs) /\ AttrsDistinct(e.attrs)), {e.target})
      [] e.ev = "get_template_contents" ->
            IF PreTemplateContents(n, e.target)
            THEN LET t == TemplateContents(n, e.target) IN R(t.nodes, t.ret = e.ret, {e.target})
            ELSE R(n, FALSE, {e.target})
      [] e.ev = "elem_name" -> R(n, PreElemOnly(n, e.target), {e.target})
      [] e.ev = "is_mathml_ip" -> R(n, PreElemOnly(n, e.target), {e.target})
      [] e.ev = "same_node" -> R(n, TRUE, {e.x, e.y})
      [] e.ev = "pop" -> R(n, Known(n, e.node), {e.node})
      [] e.ev = "mark_script_already_started" -> R(n, PreElemOnly(n, e.node), {e.node})
      [] e.ev = "associate_with_form" ->
            R(n, PreElemOnly(n, e.target) /\ PreElemOnly(n, e.form), {e.target, e.form, e.n1} \cup (IF e.n2 = 0 THEN {} ELSE {e.n2}))
      [] e.ev = "maybe_clone_option" ->
            R(IF PreCloneOption(n, e.option) THEN MaybeCloneOption(n, e.option) ELSE n, PreCloneOption(n, e.option), {e.option})
      [] e.ev = "context" -> R(n, TRUE, {})
      [] OTHER -> R(n, TRUE, {})

\* nodes kept by a collection that keeps what is connected to the traced handles
Kept(n, ids) ==
    LET roots == {RootOf(n, ids[i]) : i \in DOMAIN ids} IN
    {x \in 0..(Len(n) - 1) : RootOf(n, x) \in roots}

\* C20, last clause: serializing visits every node exactly once, in document order (template contents in place of a
\* template's children).  Expected visit sequence of a dumped tree, in the shape the harness's recording Serializer logs.
RECURSIVE Visits(_), VisitsOf(_, _)
Visits(n) ==
    CASE n.k = "el" -> <<[k |-> "s", n |-> n.local, a |-> Len(n.attrs)]>>
                       \o VisitsOf(IF n.tmpl # <<>> THEN n.tmpl[1] ELSE n.ch, 1)
                       \o <<[k |-> "e", n |-> n.local, a |-> 0]>>
      [] n.k = "text" -> <<[k |-> "t", n |-> n.s, a |-> 0]>>
      [] n.k = "comment" -> <<[k |-> "c", n |-> n.s, a |-> 0]>>
      [] n.k = "doctype" -> <<[k |-> "d", n |-> n.name, a |-> 0]>>
      [] n.k = "pi" -> <<[k |-> "p", n |-> n.target, a |-> 0]>>
      [] OTHER -> <<>>
VisitsOf(ch, i) == IF i > Len(ch) THEN <<>> ELSE Visits(ch[i]) \o VisitsOf(ch, i + 1)

\* every template element of a dumped tree, in document order (descending into template contents)
RECURSIVE TemplatesIn(_), TemplatesOf(_, _)
TemplatesIn(n) == IF n.k # "el" THEN <<>>
                  ELSE IF n.tmpl # <<>> THEN <<n>> \o TemplatesOf(n.tmpl[1], 1) ELSE TemplatesOf(n.ch, 1)
TemplatesOf(ch, i) == IF i > Len(ch) THEN <<>> ELSE TemplatesIn(ch[i]) \o TemplatesOf(ch, i + 1)
\* serializing a template element on its own: children-only = its contents; include-node = itself around them
SerOk(e) ==
    LET ts == TemplatesOf(e.dom.ch, 1) IN
    /\ e.ser.doc = VisitsOf(e.dom.ch, 1)
    /\ Len(e.ser.templates) = Len(ts)
    /\ \A i \in DOMAIN ts : e.ser.templates[i] = <<VisitsOf(ts[i].tmpl[1], 1), Visits(ts[i])>>

Reject(e, why) == PrintT(<<"REJECT", l, e.case, why>>)

Judged(p) == Prop = p \/ Prop = "ALL"

Step(e) ==
    IF e.ev = "reset" THEN
        /\ nodes' = InitNodes /\ dead' = {} /\ skipping' = FALSE /\ mode' = e.cfg.mode
        /\ cur' = NoTok /\ metaId' = -1 /\ metaIn' = FALSE
    ELSE IF skipping /\ e.ev # "tree" THEN UNCHANGED <<nodes, dead, skipping, mode, cur, metaId, metaIn>>
    ELSE IF e.ev = "token" THEN
        /\ cur' = e.tok /\ metaId' = -1 /\ metaIn' = FALSE
        /\ UNCHANGED <<nodes, dead, skipping, mode>>
    ELSE IF e.ev = "reply" THEN
        \* C19: an encoding indicator exactly for a meta start tag whose processing inserted an HTML
        \* meta element and which declares a label; the label is the declared one
        LET isMeta == cur.k = "start" /\ cur.name = S_meta
            d == IF isMeta THEN DeclaredLabel(cur.attrs) ELSE <<>>
            want == isMeta /\ metaIn /\ d # <<>>
            okC19 == ((e.r = "enc") = want) /\ (want => e.x = d[1]) IN
        /\ ((Judged("C19") /\ ~okC19) => Reject(e, "C19"))
        /\ cur' = NoTok
        /\ UNCHANGED <<nodes, dead, skipping, mode, metaId, metaIn>>
    ELSE IF e.ev = "feed_ret" THEN
        \* C04: a feed() that reports Done has consumed the whole queue
        /\ ((Judged("C04") /\ e.ret = "done" /\ ~e.empty) => Reject(e, "C04"))
        /\ UNCHANGED <<nodes, dead, skipping, mode, cur, metaId, metaIn>>
    ELSE IF e.ev = "trace_handles" THEN
        /\ dead' = dead \cup ((0..(Len(nodes) - 1)) \ Kept(nodes, e.ids))
        /\ UNCHANGED <<nodes, skipping, mode, cur, metaId, metaIn>>
    ELSE IF e.ev = "tree" THEN
        \* after a call outside the contract the abstract DOM is not meaningful (C20 is not judged on that case);
        \* the clauses that only look at the delivered tree still are
        LET okSer == "ser" \notin DOMAIN e \/ e.dom.k # "doc" \/ SerOk(e)
            okC20 == e.panic # <<>> \/ (okSer /\ (skipping \/ (CanonNode(nodes, 0) = e.dom /\ e.parents_ok /\ LinksConsistent(nodes))))
            okC06 == e.panic # <<>> \/ mode # "doc" \/ Skeleton(e.dom)
            okC04 == e.panic = <<>> /\ e.neof = 1
            bad == (Judged("C20") /\ ~okC20) \/ (Judged("C06") /\ ~okC06) \/ (Judged("C04") /\ ~okC04) IN
        /\ (bad => Reject(e, IF ~okC04 THEN "C04" ELSE IF ~okC20 THEN "C20" ELSE "C06"))
        /\ UNCHANGED <<nodes, dead, skipping, mode, cur, metaId, metaIn>>
    ELSE
        LET r == Apply(nodes, e)
            badC05 == Judged("C05") /\ ~r.pre
            badC18 == Judged("C18") /\ (r.uses \cap dead # {}) IN
        /\ nodes' = r.nodes
        /\ skipping' = (badC05 \/ badC18 \/ ~r.pre)     \* after a broken call the model state is not meaningful
        /\ ((badC05 \/ badC18) => Reject(e, IF badC05 THEN "C05" ELSE "C18"))
        /\ metaId' = (IF e.ev = "create_element" /\ e.ns = "html" /\ e.local = S_meta /\ cur.k = "start" THEN e.id ELSE metaId)
        /\ metaIn' = (metaIn \/ (metaId # -1 /\ e.ev \in {"append", "append_before_sibling", "append_based_on_parent_node"}
                                  /\ e.k = "node" /\ e.child = metaId))
        /\ UNCHANGED <<dead, mode, cur>>

\* C09, forwarding clause: the tree builder hands the sink the line number it received with the token, and does so
\* before any other call it makes for that token (whenever the number differs from the one the sink has)
SinkCalls == {"create_element", "create_comment", "create_pi", "append", "append_before_sibling", "append_based_on_parent_node",
              "append_doctype", "remove_from_parent", "reparent_children", "add_attrs_if_missing", "parse_error"}
LineStep(e) ==
    IF e.ev = "reset" THEN ln' = [cur |-> 1, fwd |-> 1, tok |-> FALSE]
    ELSE IF e.ev = "token" THEN ln' = IF e.line = 0 THEN ln ELSE [ln EXCEPT !.cur = e.line, !.tok = TRUE]
    ELSE IF e.ev = "reply" THEN ln' = [ln EXCEPT !.tok = FALSE]
    ELSE IF e.ev = "set_current_line" THEN
        /\ ((Judged("C09") /\ ln.tok /\ e.line # ln.cur) => Reject(e, "C09"))
        /\ ln' = [ln EXCEPT !.fwd = e.line]
    ELSE IF e.ev \in SinkCalls /\ ln.tok THEN
        /\ ((Judged("C09") /\ ln.fwd # ln.cur) => Reject(e, "C09"))
        /\ UNCHANGED ln
    ELSE UNCHANGED ln

Next == /\ l <= Len(Rec)
        /\ l' = l + 1
        /\ Step(Rec[l])
        /\ LineStep(Rec[l])

Spec == Init /\ [][Next]_vars
AllConsumed == \/ TLCGet("stats").diameter = Len(Rec) + 1
               \/ PrintT(<<"NOT-CONSUMED", TLCGet("stats").diameter, Len(Rec)>>) /\ FALSE
=============================================================================
