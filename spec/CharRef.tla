------------------------------ MODULE CharRef ------------------------------
(***************************************************************************)
(* L0: WHATWG character references (13.2.5.72-80), as a function of the    *)
(* input after the '&': longest-match named references with the attribute  *)
(* legacy exception, numeric references with the C1 remapping table.       *)
(* The C1 rows below are GENERATED from Python's cp1252 codec.             *)
(***************************************************************************)
EXTENDS Chars, Entities

AMP == 38
SEMI == 59
HASH == 35
EQUALS == 61

\* value of the table row for `name`, or <<>> if name is not in the table
Lookup(name) ==
    LET rs == EntRows(name[1])
        idx == {i \in DOMAIN rs : rs[i][1] = name} IN
    IF idx = {} THEN <<>> ELSE LET i == CHOOSE j \in idx : TRUE IN <<rs[i][2], rs[i][3]>>

\* length of the run of ASCII alphanumerics starting at p
RECURSIVE AlnumRun(_, _)
AlnumRun(inp, p) == IF p <= Len(inp) /\ IsAsciiAlnum(inp[p]) THEN 1 + AlnumRun(inp, p + 1) ELSE 0

RECURSIVE LongestFrom(_, _, _)
LongestFrom(inp, p, k) ==
    IF k = 0 THEN 0
    ELSE IF Lookup(SubSeq(inp, p, p + k - 1)) # <<>> THEN k
    ELSE LongestFrom(inp, p, k - 1)

\* longest k >= 1 such that inp[p .. p+k-1] is a name of the table; 0 if none
LongestMatch(inp, p) ==
    LET run == AlnumRun(inp, p)
        withSemi == IF p + run <= Len(inp) /\ inp[p + run] = SEMI THEN run + 1 ELSE run IN
    LongestFrom(inp, p, MinN(MaxEntityNameLen, withSemi))

C1Map(n) == CASE n = 128 -> 8364 [] n = 130 -> 8218 [] n = 131 -> 402 [] n = 132 -> 8222 [] n = 133 -> 8230 [] n = 134 -> 8224 [] n = 135 -> 8225 [] n = 136 -> 710 [] n = 137 -> 8240 [] n = 138 -> 352 [] n = 139 -> 8249 [] n = 140 -> 338 [] n = 142 -> 381 [] n = 145 -> 8216 [] n = 146 -> 8217 [] n = 147 -> 8220 [] n = 148 -> 8221 [] n = 149 -> 8226 [] n = 150 -> 8211 [] n = 151 -> 8212 [] n = 152 -> 732 [] n = 153 -> 8482 [] n = 154 -> 353 [] n = 155 -> 8250 [] n = 156 -> 339 [] n = 158 -> 382 [] n = 159 -> 376 [] OTHER -> n

\* code point produced by a numeric reference whose parsed value is n (n saturated at 1114112)
NumericValue(n) ==
    IF n = 0 \/ n > 1114111 \/ IsSurrogate(n) THEN REPL
    ELSE IF n >= 128 /\ n <= 159 THEN C1Map(n)
    ELSE n

DigitVal(c) == IF IsAsciiDigit(c) THEN c - 48 ELSE IF IsUpperHex(c) THEN c - 55 ELSE c - 87
IsDigitIn(base, c) == IF base = 10 THEN IsAsciiDigit(c) ELSE IsAsciiHex(c)

\* parse digits from p: returns <<value saturated at 1114112, number of digits>>
RECURSIVE ParseDigits(_, _, _, _, _)
ParseDigits(inp, p, base, acc, n) ==
    IF p <= Len(inp) /\ IsDigitIn(base, inp[p])
    THEN ParseDigits(inp, p + 1, base, MinN(acc * base + DigitVal(inp[p]), 1114112), n + 1)
    ELSE <<acc, n>>

NotARef == [chars |-> <<AMP>>, n |-> 0]

\* p = position just after the '&'.  Result: the characters the reference stands for and how
\* many input characters after the '&' it consumed.  "Not a reference" = <<'&'>>, 0: the
\* following characters are then tokenized normally in the return state, which is what
\* "flush code points consumed as a character reference" amounts to.
CharRefAt(inp, p, inAttr) ==
    IF p > Len(inp) THEN NotARef
    ELSE IF IsAsciiAlnum(inp[p]) THEN
        LET k == LongestMatch(inp, p) IN
        IF k = 0 THEN NotARef
        ELSE LET v == Lookup(SubSeq(inp, p, p + k - 1))
                 lastSemi == inp[p + k - 1] = SEMI
                 hasNext == p + k <= Len(inp)
                 legacy == inAttr /\ ~lastSemi /\ hasNext /\ (inp[p + k] = EQUALS \/ IsAsciiAlnum(inp[p + k])) IN
             IF legacy THEN NotARef
             ELSE [chars |-> IF v[2] = 0 THEN <<v[1]>> ELSE v, n |-> k]
    ELSE IF inp[p] = HASH THEN
        LET hex == p + 1 <= Len(inp) /\ (inp[p + 1] = 120 \/ inp[p + 1] = 88)
            dstart == IF hex THEN p + 2 ELSE p + 1
            pd == ParseDigits(inp, dstart, IF hex THEN 16 ELSE 10, 0, 0) IN
        IF pd[2] = 0 THEN NotARef
        ELSE LET after == dstart + pd[2]
                 semi == after <= Len(inp) /\ inp[after] = SEMI IN
             [chars |-> <<NumericValue(pd[1])>>, n |-> (after - p) + (IF semi THEN 1 ELSE 0)]
    ELSE NotARef
=============================================================================
