---------------------------- MODULE Trace_Tendril ----------------------------
(***************************************************************************)
(* Judge of recorded operation histories on real tendrils.                 *)
(* C11: after every operation every live tendril holds exactly the bytes   *)
(* the independent L0 byte-string model holds, and checked operations fail *)
(* exactly when L0 says (out of bounds / not valid in the format).         *)
(* C12: the allocation observer saw every block freed exactly once, no     *)
(* damaged guard zone, nothing live when all tendrils are gone.            *)
(***************************************************************************)
EXTENDS Tendril, TLC, Json, IOUtils

Rec == ndJsonDeserialize(IOEnv.TRACE)
Prop == IOEnv.PROP
VARIABLES l, vals, fmt, skipping
vars == <<l, vals, fmt, skipping>>
\* vals[i] = <<>> (free slot) or <<bytes>>
Init == l = 1 /\ vals = <<>> /\ fmt = "bytes" /\ skipping = FALSE

V(i) == vals[i][1]
LiveS(i) == vals[i] # <<>>

\* expected [res, vals'] of an operation
Exp(e) ==
    LET i == e.i
        j == e.j IN
    CASE (e.op # "from" /\ ~LiveS(i)) \/ (e.op = "push_tendril" /\ ~LiveS(j)) -> [res |-> "noslot", vals |-> vals]
      [] e.op = "from" -> LET r == L0TryFrom(fmt, e.x) IN
            IF r.ok THEN [res |-> "ok", vals |-> [vals EXCEPT ![i] = <<e.x>>]] ELSE [res |-> r.err, vals |-> vals]
      [] e.op = "push" -> LET r == L0TryPush(fmt, V(i), e.x) IN
            IF r.ok THEN [res |-> "ok", vals |-> [vals EXCEPT ![i] = <<r.val>>]] ELSE [res |-> r.err, vals |-> vals]
      [] e.op = "push_tendril" -> [res |-> "ok", vals |-> [vals EXCEPT ![i] = <<Cat(fmt, V(i), V(j))>>]]
      [] e.op = "pop_char" ->
            IF V(i) = <<>> THEN [res |-> "none", vals |-> [vals EXCEPT ![i] = <<<<>>>>]]
            ELSE LET fc == FirstChar(fmt, V(i)) IN
                 [res |-> "char:" \o ToString(fc.cp), vals |-> [vals EXCEPT ![i] = <<Drop(V(i), fc.n)>>]]
      [] e.op = "pop_run" ->
            IF V(i) = <<>> THEN [res |-> "none", vals |-> vals]
            ELSE LET c == CharClass(FirstChar(fmt, V(i)).cp)
                     n == RunLen(fmt, V(i), 1, c) IN
                 [res |-> "run:" \o ToString(c), vals |-> [vals EXCEPT ![j] = <<Take(V(i), n)>>, ![i] = <<Drop(V(i), n)>>]]
      [] e.op = "push_char" ->
            IF IsSurrogate(e.a) \/ e.a > 1114111 THEN [res |-> "nochar", vals |-> vals]
            ELSE IF CharOk(fmt, e.a) THEN [res |-> "ok", vals |-> [vals EXCEPT ![i] = <<V(i) \o CharBytes(fmt, e.a)>>]]
            ELSE [res |-> "invalid", vals |-> vals]
      [] e.op = "sub" -> LET r == L0TrySub(fmt, V(i), e.a, e.b) IN
            IF r.ok THEN [res |-> "ok", vals |-> [vals EXCEPT ![j] = <<r.val>>]] ELSE [res |-> r.err, vals |-> vals]
      [] e.op = "pop_front" -> LET r == L0TryPopFront(fmt, V(i), e.a) IN
            IF r.ok THEN [res |-> "ok", vals |-> [vals EXCEPT ![i] = <<r.val>>]] ELSE [res |-> r.err, vals |-> vals]
      [] e.op = "pop_back" -> LET r == L0TryPopBack(fmt, V(i), e.a) IN
            IF r.ok THEN [res |-> "ok", vals |-> [vals EXCEPT ![i] = <<r.val>>]] ELSE [res |-> r.err, vals |-> vals]
      [] e.op = "clone" -> [res |-> "ok", vals |-> [vals EXCEPT ![j] = vals[i]]]
      [] e.op = "clear" -> [res |-> "ok", vals |-> [vals EXCEPT ![i] = <<<<>>>>]]
      [] e.op = "write" -> [res |-> "ok", vals |-> IF fmt = "bytes" THEN [vals EXCEPT ![i] = <<[V(i) EXCEPT ![e.a] = e.b]>>] ELSE vals]
      [] e.op = "drop" -> [res |-> "ok", vals |-> [vals EXCEPT ![i] = <<>>]]
      [] OTHER -> [res |-> "ok", vals |-> vals]          \* reserve, send round trip: value unchanged

Step(e) ==
    IF e.ev = "reset" THEN vals' = [i \in 1..e.slots |-> <<>>] /\ fmt' = e.fmt /\ skipping' = FALSE
    ELSE IF skipping THEN UNCHANGED <<vals, fmt, skipping>>
    ELSE IF e.ev = "end" THEN
        LET okC12 == e.double_free = 0 /\ e.canary = 0 /\ e.live = 0 /\ e.allocs = e.frees /\ e.content_ok /\ ~e.panic IN
        /\ ((Prop \in {"C12", "ALL"} /\ ~okC12) => PrintT(<<"REJECT", l, e.case, "C12">>))
        /\ UNCHANGED <<vals, fmt, skipping>>
    ELSE LET x == Exp(e)
             ok == e.res = x.res /\ e.snap = x.vals
                   /\ \A i \in DOMAIN x.vals : (x.vals[i] # <<>> => Valid(fmt, x.vals[i][1])) IN
         /\ ((Prop \in {"C11", "ALL"} /\ ~ok) => PrintT(<<"REJECT", l, e.case, "C11">>))
         \* a panic inside a safe operation that L0 allows is tendril's own bounds/consistency assertion firing
         /\ ((Prop \in {"C12", "ALL"} /\ e.panicked /\ x.res = "ok") => PrintT(<<"REJECT", l, e.case, "C12">>))
         /\ vals' = (IF ok THEN x.vals ELSE vals) /\ skipping' = ~ok /\ fmt' = fmt

Next == l <= Len(Rec) /\ l' = l + 1 /\ Step(Rec[l])
Spec == Init /\ [][Next]_vars
AllConsumed == \/ TLCGet("stats").diameter = Len(Rec) + 1
               \/ PrintT(<<"NOT-CONSUMED", TLCGet("stats").diameter, Len(Rec)>>) /\ FALSE
=============================================================================
