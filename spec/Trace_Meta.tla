----------------------------- MODULE Trace_Meta -----------------------------
(* C19 (a): a `meta` start tag token given to the real tree builder: the result is an encoding *)
(* indicator iff MetaCharset!DeclaredLabel says so, with that label.                           *)
EXTENDS MetaCharset, TLC, Json, IOUtils
Rec == ndJsonDeserialize(IOEnv.TRACE)
VARIABLES l
Init == l = 1
Judge(e) == LET d == DeclaredLabel(e.attrs) IN
            /\ e.panic = <<>>
            /\ e.inserted
            /\ (e.ret = "enc") = (d # <<>>)
            /\ (d # <<>> => e.label = d[1])
Next == /\ l <= Len(Rec) /\ l' = l + 1
        /\ (Judge(Rec[l]) \/ PrintT(<<"REJECT", l, Rec[l].case>>))
Spec == Init /\ [][Next]_l
AllConsumed == \/ TLCGet("stats").diameter = Len(Rec) + 1
               \/ PrintT(<<"NOT-CONSUMED", TLCGet("stats").diameter, Len(Rec)>>) /\ FALSE
=============================================================================
