--------------------------- MODULE HtmlTreeBuilder ---------------------------
(***************************************************************************)
(* L0: WHATWG HTML tree construction (13.2.6), transcribed from the        *)
(* standard: the dispatcher, every insertion mode, the rules for foreign   *)
(* content, the adoption agency algorithm, reconstruction of the active    *)
(* formatting elements (with the Noah's Ark clause), appropriate place for *)
(* inserting a node (foster parenting, template contents), reset of the    *)
(* insertion mode, scope predicates, fragment set-up and the quirks-mode   *)
(* decision.  The tree is the abstract DOM of module Dom; node numbers are *)
(* this model's own (results are compared in canonical, number-free form). *)
(* Tokens are those of HtmlTokenizer (without positions).                  *)
(*                                                                         *)
(* The parts of the standard that changed in 2025 (select/option/optgroup  *)
(* parsed in the "in body" mode, selectedcontent) are transcribed from the *)
(* steps as far as they are known here and are flagged: a run that touched *)
(* them sets `low` and a disagreement on such a run is reported UNDECIDED. *)
(***************************************************************************)
EXTENDS Dom, Names, QuirksTables

\* ---- tokens -----------------------------------------------------------------
IsStart(tok) == tok.k = "start"
IsEnd(tok) == tok.k = "end"
StartIn(tok, names) == tok.k = "start" /\ tok.name \in names
EndIn(tok, names) == tok.k = "end" /\ tok.name \in names
IsChars(tok) == tok.k = "chars"
TokAttr(tok, name) == LET idx == {i \in DOMAIN tok.attrs : tok.attrs[i].n = name} IN
                      IF idx = {} THEN <<>> ELSE <<tok.attrs[CHOOSE i \in idx : TRUE].v>>

\* ---- state --------------------------------------------------------------------
\* afe entries: [m |-> TRUE] (marker) or [m |-> FALSE, id |-> node, tok |-> start tag token]
Marker == [m |-> TRUE, id |-> -1, tok |-> [k |-> "none"]]
Entry(id, tok) == [m |-> FALSE, id |-> id, tok |-> tok]

TbInit(scripting, srcdoc, iquirks) ==
    [mode |-> "Initial", orig |-> "Initial", tmodes |-> <<>>, open |-> <<>>, afe |-> <<>>, head |-> -1, form |-> -1,
     fok |-> TRUE, foster |-> FALSE, ptt |-> <<>>, nodes |-> InitNodes, quirks |-> iquirks, scripting |-> scripting,
     srcdoc |-> srcdoc, ctx |-> -1, frag |-> FALSE, ignoreLf |-> FALSE, low |-> FALSE, stopped |-> FALSE,
     ts |-> "", qset |-> FALSE]
\* ts: the tokenizer state switch asked for while processing the current token ("" = none);
\* qset: the document's mode has been set by the parser (reported to the embedder)

Nd(t, id) == N(t.nodes, id)
Cur(t) == t.open[Len(t.open)]
IsHtmlNode(t, id, name) == Nd(t, id).k = "el" /\ Nd(t, id).ns = "html" /\ Nd(t, id).local = name
IsHtmlIn(t, id, names) == Nd(t, id).k = "el" /\ Nd(t, id).ns = "html" /\ Nd(t, id).local \in names
CurIs(t, name) == t.open # <<>> /\ IsHtmlNode(t, Cur(t), name)
CurIn(t, names) == t.open # <<>> /\ IsHtmlIn(t, Cur(t), names)
AdjCur(t) == IF t.frag /\ Len(t.open) = 1 THEN t.ctx ELSE Cur(t)

StackHas(t, name) == \E i \in DOMAIN t.open : IsHtmlNode(t, t.open[i], name)
StackIndexOf(t, id) == IF \E i \in DOMAIN t.open : t.open[i] = id THEN CHOOSE i \in DOMAIN t.open : t.open[i] = id ELSE 0

\* ---- scopes (13.2.4.2) --------------------------------------------------------
IsBoundary(t, id, kind) ==
    LET n == Nd(t, id) IN
    CASE kind = "table" -> n.ns = "html" /\ n.local \in {N_html, N_table, N_template}
      [] OTHER ->
          \/ (n.ns = "html" /\ n.local \in ScopeHtml)
          \/ (n.ns = "mathml" /\ n.local \in ScopeMathml)
          \/ (n.ns = "svg" /\ n.local \in ScopeSvg)
          \/ (kind = "list" /\ n.ns = "html" /\ n.local \in {<<111, 108>>, <<117, 108>>})      \* ol ul
          \/ (kind = "button" /\ n.ns = "html" /\ n.local = N_button)

RECURSIVE ScopeFrom(_, _, _, _)
ScopeFrom(t, i, names, kind) ==
    IF i = 0 THEN FALSE
    ELSE IF IsHtmlIn(t, t.open[i], names) THEN TRUE
    ELSE IF IsBoundary(t, t.open[i], kind) THEN FALSE
    ELSE ScopeFrom(t, i - 1, names, kind)
InScope(t, name) == ScopeFrom(t, Len(t.open), {name}, "default")
InScopeAny(t, names) == ScopeFrom(t, Len(t.open), names, "default")
InButtonScope(t, name) == ScopeFrom(t, Len(t.open), {name}, "button")
InListScope(t, name) == ScopeFrom(t, Len(t.open), {name}, "list")
InTableScope(t, name) == ScopeFrom(t, Len(t.open), {name}, "table")
InTableScopeAny(t, names) == ScopeFrom(t, Len(t.open), names, "table")
\* a specific node in scope
RECURSIVE NodeScopeFrom(_, _, _)
NodeScopeFrom(t, i, id) == IF i = 0 THEN FALSE ELSE IF t.open[i] = id THEN TRUE
                           ELSE IF IsBoundary(t, t.open[i], "default") THEN FALSE ELSE NodeScopeFrom(t, i - 1, id)

\* ---- stack ----------------------------------------------------------------------
Pop(t) == [t EXCEPT !.open = SubSeq(@, 1, Len(@) - 1)]
PopN(t, n) == [t EXCEPT !.open = SubSeq(@, 1, Len(@) - n)]
RECURSIVE PopUntilIn(_, _)
\* pop until an HTML element with one of the names has been popped
PopUntilIn(t, names) == IF t.open = <<>> THEN t ELSE IF CurIn(t, names) THEN Pop(t) ELSE PopUntilIn(Pop(t), names)
PopUntil(t, name) == PopUntilIn(t, {name})
RECURSIVE PopUntilNode(_, _)
PopUntilNode(t, id) == IF t.open = <<>> THEN t ELSE IF Cur(t) = id THEN Pop(t) ELSE PopUntilNode(Pop(t), id)
RECURSIVE ClearBackTo(_, _)
\* "clear the stack back to a ... context": pop until the current node is one of names
ClearBackTo(t, names) == IF t.open = <<>> \/ CurIn(t, names) THEN t ELSE ClearBackTo(Pop(t), names)

RECURSIVE GenImplied(_, _)
GenImplied(t, except) ==
    IF t.open # <<>> /\ CurIn(t, ImpliedEndTags \ except) THEN GenImplied(Pop(t), except) ELSE t
RECURSIVE GenImpliedThorough(_)
GenImpliedThorough(t) == IF t.open # <<>> /\ CurIn(t, ImpliedEndTagsThorough) THEN GenImpliedThorough(Pop(t)) ELSE t

\* ---- creating and inserting nodes (13.2.6.1) -----------------------------------
HtmlAttrs(tok) == [i \in DOMAIN tok.attrs |-> [ns |-> "", prefix |-> <<>>, local |-> tok.attrs[i].n, v |-> tok.attrs[i].v]]

TableLookup2(table, key) == LET idx == {i \in DOMAIN table : table[i][1] = key} IN
                            IF idx = {} THEN <<>> ELSE <<table[CHOOSE i \in idx : TRUE]>>
\* adjust foreign attributes; for MathML also definitionurl, for SVG the attribute-name table
ForeignAttrs(tok, ns) ==
    [i \in DOMAIN tok.attrs |->
        LET n == tok.attrs[i].n
            f == TableLookup2(ForeignAttrAdjust, n)
            local1 == IF ns = "mathml" /\ TableLookup2(MathmlAttrAdjust, n) # <<>> THEN TableLookup2(MathmlAttrAdjust, n)[1][2]
                      ELSE IF ns = "svg" /\ TableLookup2(SvgAttrAdjust, n) # <<>> THEN TableLookup2(SvgAttrAdjust, n)[1][2]
                      ELSE n IN
        IF f # <<>> THEN [ns |-> f[1][4], prefix |-> f[1][2], local |-> f[1][3], v |-> tok.attrs[i].v]
        ELSE [ns |-> "", prefix |-> <<>>, local |-> local1, v |-> tok.attrs[i].v]]

\* create an element for a token in a namespace; a template gets its contents fragment at once.
\* Returns [t, id]
CreateFor(t, tok, ns, local) ==
    LET id == Len(t.nodes)
        attrs == IF ns = "html" THEN HtmlAttrs(tok) ELSE ForeignAttrs(tok, ns)
        \* the token's "had duplicate attributes" flag travels with the element (field s: <<1>> = set)
        el == MkNode("el", ns, local, attrs, IF tok.dup THEN <<1>> ELSE <<>>, <<>>)
        isT == ns = "html" /\ local = N_template
        n1 == IF isT THEN Append(Append(t.nodes, [el EXCEPT !.tmpl = id + 1]),
                                 [MkNode("frag", "", <<>>, <<>>, <<>>, <<>>) EXCEPT !.host = id])
              ELSE Append(t.nodes, el) IN
    [t |-> [t EXCEPT !.nodes = n1], id |-> id]

\* appropriate place for inserting a node: [parent, before] (before = -1: append)
RECURSIVE LastIndexOf(_, _, _)
LastIndexOf(t, i, name) == IF i = 0 THEN 0 ELSE IF IsHtmlNode(t, t.open[i], name) THEN i ELSE LastIndexOf(t, i - 1, name)
PlaceIn(t, target) ==
    LET adj ==
        IF t.foster /\ IsHtmlIn(t, target, {N_table, N_tbody, N_tfoot, N_thead, N_tr}) THEN
            LET lt == LastIndexOf(t, Len(t.open), N_template)
                lb == LastIndexOf(t, Len(t.open), N_table) IN
            IF lt # 0 /\ (lb = 0 \/ lt > lb) THEN [parent |-> Nd(t, t.open[lt]).tmpl, before |-> -1]
            ELSE IF lb = 0 THEN [parent |-> t.open[1], before |-> -1]
            ELSE IF Nd(t, t.open[lb]).parent # -1 THEN [parent |-> Nd(t, t.open[lb]).parent, before |-> t.open[lb]]
            ELSE [parent |-> t.open[lb - 1], before |-> -1]
        ELSE [parent |-> target, before |-> -1] IN
    IF adj.before = -1 /\ IsHtmlNode(t, adj.parent, N_template) THEN [parent |-> Nd(t, adj.parent).tmpl, before |-> -1] ELSE adj
Place(t) == PlaceIn(t, Cur(t))

InsertNodeAtPlace(nodes, pl, id) ==
    IF pl.before = -1 THEN AppendNodeTo(nodes, pl.parent, id) ELSE InsertNodeBefore(nodes, pl.before, id)
InsertTextAtPlace(nodes, pl, s) ==
    IF N(nodes, pl.parent).k = "doc" THEN nodes
    ELSE IF pl.before = -1 THEN AppendTextTo(nodes, pl.parent, s) ELSE InsertTextBefore(nodes, pl.before, s)

\* insert a foreign/HTML element for a token and push it
InsertElNs(t, tok, ns, local) ==
    LET c == CreateFor(t, tok, ns, local)
        pl == Place(c.t) IN
    [c.t EXCEPT !.nodes = InsertNodeAtPlace(@, pl, c.id), !.open = Append(@, c.id)]
InsertEl(t, tok) == InsertElNs(t, tok, "html", tok.name)
InsertAndPop(t, tok) == Pop(InsertEl(t, tok))
InsertChars(t, s) == IF s = <<>> THEN t ELSE [t EXCEPT !.nodes = InsertTextAtPlace(@, Place(t), s)]
InsertCommentAt(t, s, pl) ==
    LET id == Len(t.nodes) IN
    [t EXCEPT !.nodes = InsertNodeAtPlace(Append(@, MkNode("comment", "", <<>>, <<>>, s, <<>>)), pl, id)]
InsertComment(t, s) == InsertCommentAt(t, s, Place(t))
FakeTag(name) == [k |-> "start", name |-> name, attrs |-> <<>>, sc |-> FALSE, dup |-> FALSE]

\* ---- active formatting elements (13.2.4.3) -------------------------------------
SameTag(a, b) == a.name = b.name /\ Len(a.attrs) = Len(b.attrs) /\ \A i \in DOMAIN a.attrs : \E j \in DOMAIN b.attrs : a.attrs[i] = b.attrs[j]
LastMarker(afe) == IF \E i \in DOMAIN afe : afe[i].m THEN CHOOSE i \in DOMAIN afe : afe[i].m /\ \A j \in DOMAIN afe : afe[j].m => j <= i ELSE 0
PushAfe(t, id, tok) ==
    LET lm == LastMarker(t.afe)
        same == {i \in (lm + 1)..Len(t.afe) : ~t.afe[i].m /\ SameTag(t.afe[i].tok, tok)
                                               /\ Nd(t, t.afe[i].id).ns = Nd(t, id).ns} IN
    IF Cardinality(same) >= 3
    THEN LET first == CHOOSE i \in same : \A j \in same : i <= j IN
         [t EXCEPT !.afe = Append(RemoveAt(@, first), Entry(id, tok))]
    ELSE [t EXCEPT !.afe = Append(@, Entry(id, tok))]
ClearAfeToMarker(t) == LET lm == LastMarker(t.afe) IN [t EXCEPT !.afe = SubSeq(@, 1, IF lm = 0 THEN 0 ELSE lm - 1)]
AfeIndexOfNode(t, id) == IF \E i \in DOMAIN t.afe : ~t.afe[i].m /\ t.afe[i].id = id
                         THEN CHOOSE i \in DOMAIN t.afe : ~t.afe[i].m /\ t.afe[i].id = id ELSE 0
InStack(t, id) == \E i \in DOMAIN t.open : t.open[i] = id

\* reconstruct the active formatting elements
RECURSIVE ReconFrom(_, _)
ReconFrom(t, i) ==       \* create elements for entries i..end
    IF i > Len(t.afe) THEN t
    ELSE LET e == t.afe[i]
             t1 == InsertEl(t, e.tok)
             t2 == [t1 EXCEPT !.afe[i] = Entry(Cur(t1), e.tok)] IN
         ReconFrom(t2, i + 1)
RECURSIVE RewindTo(_, _)
RewindTo(t, i) ==        \* first entry to re-create, searching backwards from i
    IF i = 1 THEN 1
    ELSE LET p == t.afe[i - 1] IN IF p.m \/ InStack(t, p.id) THEN i ELSE RewindTo(t, i - 1)
Reconstruct(t) ==
    IF t.afe = <<>> THEN t
    ELSE LET last == t.afe[Len(t.afe)] IN
         IF last.m \/ InStack(t, last.id) THEN t
         ELSE ReconFrom(t, RewindTo(t, Len(t.afe)))

\* ---- adoption agency algorithm (13.2.6.4.7) --------------------------------------
\* "any other end tag" steps of the in-body mode
RECURSIVE AnyOtherEndFrom(_, _, _)
AnyOtherEndFrom(t, i, name) ==
    IF i = 0 THEN t
    ELSE LET id == t.open[i] IN
         IF IsHtmlNode(t, id, name) THEN PopUntilNode(GenImplied(t, {name}), id)
         ELSE IF (Nd(t, id).ns = "html" /\ Nd(t, id).local \in SpecialHtml)
                 \/ (Nd(t, id).ns = "mathml" /\ Nd(t, id).local \in SpecialMathml)
                 \/ (Nd(t, id).ns = "svg" /\ Nd(t, id).local \in SpecialSvg) THEN t
         ELSE AnyOtherEndFrom(t, i - 1, name)
AnyOtherEnd(t, name) == AnyOtherEndFrom(t, Len(t.open), name)

IsSpecial(t, id) == LET n == Nd(t, id) IN
    \/ (n.ns = "html" /\ n.local \in SpecialHtml) \/ (n.ns = "mathml" /\ n.local \in SpecialMathml)
    \/ (n.ns = "svg" /\ n.local \in SpecialSvg)

\* formatting element: last entry after the last marker with the subject's name
FormattingEntry(t, subject) ==
    LET lm == LastMarker(t.afe)
        c == {i \in (lm + 1)..Len(t.afe) : ~t.afe[i].m /\ IsHtmlNode(t, t.afe[i].id, subject)} IN
    IF c = {} THEN 0 ELSE CHOOSE i \in c : \A j \in c : j <= i

RECURSIVE AaaInner(_, _, _, _, _, _, _)
\* inner loop: returns [t, last, bookmark]; node index walks up the stack from the furthest block
AaaInner(t, fe, fb, nodeIdx, last, bookmark, counter) ==
    LET ni == nodeIdx - 1
        node == t.open[ni] IN
    IF node = fe THEN [t |-> t, last |-> last, bookmark |-> bookmark]
    ELSE LET ai == AfeIndexOfNode(t, node)
             c1 == counter + 1 IN
         IF c1 > 3 /\ ai # 0 THEN
             \* remove node from the list; then it is not in the list: remove from the stack and continue
             LET t1 == [t EXCEPT !.afe = RemoveAt(@, ai), !.open = RemoveAt(@, ni)]
                 bm1 == IF ai < bookmark THEN bookmark - 1 ELSE bookmark IN
             AaaInner(t1, fe, fb, ni, last, bm1, c1)
         ELSE IF ai = 0 THEN AaaInner([t EXCEPT !.open = RemoveAt(@, ni)], fe, fb, ni, last, bookmark, c1)
         ELSE \* create a replacement element, replace in list and stack
              LET c == CreateFor(t, t.afe[ai].tok, "html", t.afe[ai].tok.name)
                  t1 == [c.t EXCEPT !.afe[ai] = Entry(c.id, t.afe[ai].tok), !.open[ni] = c.id]
                  bm1 == IF last = fb THEN ai + 1 ELSE bookmark
                  \* append last node to the new node
                  t2 == [t1 EXCEPT !.nodes = AppendNodeTo(Detach(@, last), c.id, last)] IN
              AaaInner(t2, fe, fb, ni, c.id, bm1, c1)

RECURSIVE AaaOuter(_, _, _)
AaaOuter(t, subject, outer) ==
    IF outer >= 8 THEN t
    ELSE LET fi == FormattingEntry(t, subject) IN
    IF fi = 0 THEN AnyOtherEnd(t, subject)
    ELSE LET fe == t.afe[fi].id
             si == StackIndexOf(t, fe) IN
    IF si = 0 THEN [t EXCEPT !.afe = RemoveAt(@, fi)]
    ELSE IF ~NodeScopeFrom(t, Len(t.open), fe) THEN t
    ELSE LET fbs == {i \in (si + 1)..Len(t.open) : IsSpecial(t, t.open[i])} IN
    IF fbs = {} THEN [PopUntilNode(t, fe) EXCEPT !.afe = RemoveAt(@, fi)]
    ELSE LET fbi == CHOOSE i \in fbs : \A j \in fbs : i <= j
             fb == t.open[fbi]
             common == t.open[si - 1]
             r == AaaInner(t, fe, fb, fbi, fb, fi, 0)
             t1 == r.t
             \* insert last node at the appropriate place with common ancestor as override target
             pl == PlaceIn(t1, common)
             t2 == [t1 EXCEPT !.nodes = InsertNodeAtPlace(Detach(@, r.last), pl, r.last)]
             \* new element for the formatting element's token; move furthest block's children into it
             fi2 == AfeIndexOfNode(t2, fe)
             c == CreateFor(t2, t2.afe[fi2].tok, "html", t2.afe[fi2].tok.name)
             t3 == [c.t EXCEPT !.nodes = AppendNodeTo(ReparentChildren(@, fb, c.id), fb, c.id)]
             \* remove fe from the list, insert the new element at the bookmark
             bm == IF fi2 < r.bookmark THEN r.bookmark - 1 ELSE r.bookmark
             afe1 == RemoveAt(t3.afe, fi2)
             afe2 == InsertAt(afe1, MinN(bm, Len(afe1) + 1), Entry(c.id, t2.afe[fi2].tok))
             \* remove fe from the stack, insert the new element below the furthest block
             open1 == RemoveAt(t3.open, StackIndexOf(t3, fe))
             fbpos == CHOOSE i \in DOMAIN open1 : open1[i] = fb
             open2 == InsertAt(open1, fbpos + 1, c.id) IN
         AaaOuter([t3 EXCEPT !.afe = afe2, !.open = open2], subject, outer + 1)

Aaa(t, subject) ==
    IF CurIs(t, subject) /\ AfeIndexOfNode(t, Cur(t)) = 0 THEN Pop(t)
    ELSE AaaOuter(t, subject, 0)

\* ---- misc helpers -----------------------------------------------------------------
ClosePInButtonScope(t) == IF InButtonScope(t, N_p) THEN PopUntil(GenImplied(t, {N_p}), N_p) ELSE t
CloseP(t) == PopUntil(GenImplied(t, {N_p}), N_p)

\* reset the insertion mode appropriately (13.2.4.1)
RECURSIVE ResetFrom(_, _)
ResetFrom(t, i) ==
    LET last == i = 1
        node == IF last /\ t.frag THEN t.ctx ELSE t.open[i]
        n == Nd(t, node)
        h(name) == n.ns = "html" /\ n.local = name IN
    IF (h(N_td) \/ h(N_th)) /\ ~last THEN "InCell"
    ELSE IF h(N_tr) THEN "InRow"
    ELSE IF h(N_tbody) \/ h(N_thead) \/ h(N_tfoot) THEN "InTableBody"
    ELSE IF h(N_caption) THEN "InCaption"
    ELSE IF h(N_colgroup) THEN "InColumnGroup"
    ELSE IF h(N_table) THEN "InTable"
    ELSE IF h(N_template) THEN t.tmodes[Len(t.tmodes)]
    ELSE IF h(N_head) /\ ~last THEN "InHead"
    ELSE IF h(N_body) THEN "InBody"
    ELSE IF h(N_frameset) THEN "InFrameset"
    ELSE IF h(N_html) THEN (IF t.head = -1 THEN "BeforeHead" ELSE "AfterHead")
    ELSE IF last THEN "InBody"
    ELSE ResetFrom(t, i - 1)
ResetMode(t) == [t EXCEPT !.mode = ResetFrom(t, Len(t.open))]

\* generic raw text / RCDATA element parsing: insert, remember the mode, switch to "text"
ParseRaw(t, tok) == [InsertEl(t, tok) EXCEPT !.orig = t.mode, !.mode = "Text",
                                              !.ts = IF tok.name \in {N_title, N_textarea} THEN "rcdata"
                                                     ELSE IF tok.name = N_script THEN "script_data" ELSE "rawtext"]

\* ---- quirks decision (13.2.6.4.1) ----------------------------------------------------
StartsWithAny(s, prefixes) == \E p \in prefixes : IsPrefixOf(p, s)
QuirksOf(tok, srcdoc) ==
    LET name == tok.name
        pub == IF tok.pub = <<>> THEN <<>> ELSE LowerSeq(tok.pub[1])
        sys == IF tok.sys = <<>> THEN <<>> ELSE LowerSeq(tok.sys[1]) IN
    IF srcdoc THEN "no"
    ELSE IF tok.fq \/ name # <<N_html>> THEN "full"
    ELSE IF tok.pub # <<>> /\ (pub \in QuirksPublicExact \/ StartsWithAny(pub, QuirksPublicPrefixes)) THEN "full"
    ELSE IF tok.sys # <<>> /\ sys \in QuirksSystemExact THEN "full"
    ELSE IF tok.sys = <<>> /\ tok.pub # <<>> /\ StartsWithAny(pub, QuirksPublicPrefixesIfNoSystem) THEN "full"
    ELSE IF tok.pub # <<>> /\ StartsWithAny(pub, LimitedPublicPrefixes) THEN "limited"
    ELSE IF tok.sys # <<>> /\ tok.pub # <<>> /\ StartsWithAny(pub, QuirksPublicPrefixesIfNoSystem) THEN "limited"
    ELSE "no"
=============================================================================
