SPECIFICATION Spec
CONSTANTS
  MaxPieces = 2
  PieceSet <- MC_Pieces
  DoExport = TRUE
INVARIANTS OneEofLast CharsMerged TagsWellFormed PositionsMonotone DoctypeNamesLower Export
CHECK_DEADLOCK FALSE
