//! C07: HTML serializer.  (a) random trees over ordinary elements -> serialize children of a
//! context element -> parse_fragment -> compare; (b) for every element of parsed / generated
//! trees: inner (ChildrenOnly(Some(name))) vs outer (IncludeNode) serializations.
use crate::parse::*;
use crate::util::*;
use html5ever::serialize::{serialize, SerializeOpts, TraversalScope};
use html5ever::tendril::{StrTendril, TendrilSink};
use html5ever::tree_builder::{create_element, NodeOrText, TreeBuilderOpts, TreeSink};
use html5ever::{parse_document, parse_fragment, Attribute, LocalName, ParseOpts, QualName};
use markup5ever_rcdom::{Handle, NodeData, RcDom, SerializableHandle};
use serde_json::{json, Value};

fn ser(h: &Handle, scope: TraversalScope, scripting: bool) -> Result<String, String> {
    let mut out = Vec::new();
    let sh: SerializableHandle = h.clone().into();
    let opts = SerializeOpts { scripting_enabled: scripting, traversal_scope: scope, create_missing_parent: false };
    match catch(|| serialize(&mut out, &sh, opts).map_err(|e| e.to_string())) {
        Ok(Ok(())) => Ok(String::from_utf8_lossy(&out).to_string()),
        Ok(Err(e)) => Err(e),
        Err(m) => Err(format!("panic: {}", m)),
    }
}

const ORDINARY: &[&str] = &["div", "span", "b", "i", "em", "strong", "section", "blockquote", "u", "code"];

fn rand_string(r: &mut Rng, max: usize) -> String {
    let n = r.below(max + 1);
    let mut s = String::new();
    for _ in 0..n {
        let c = match r.below(12) {
            0 => *r.pick(&['&', '<', '>', '"', '\'', '\u{a0}', ';', '#', '=', '-', ' ', '/', '!', '\n', '\t']),
            1 => char::from_u32(0x80 + r.below(0x40) as u32).unwrap(), // U+0080..U+00BF: lead byte 0xC2
            2 => *r.pick(&['\u{a9}', '\u{e9}', '\u{feff}', '\u{fffd}', '\u{2028}', '\u{10000}', '\u{c0}', '\u{a0}']),
            3 => *r.pick(&['a', 'm', 'p', 'l', 't', 'g', 'x']),
            _ => (0x20 + r.below(0x5f) as u8) as char,
        };
        s.push(c);
    }
    s
}

fn gen_children(r: &mut Rng, sink: &RcDom, parent: &Handle, depth: usize, budget: &mut usize, scripting: bool) {
    let n = r.below(4);
    let mut last_text = false;
    for _ in 0..n {
        if *budget == 0 {
            return;
        }
        *budget -= 1;
        if !last_text && r.chance(2, 5) {
            let mut t = rand_string(r, 8);
            if t.is_empty() {
                t.push('x');
            }
            sink.append(parent, NodeOrText::AppendText(StrTendril::from_slice(&t)));
            last_text = true;
        } else {
            // with scripting disabled noscript is an ordinary element (its content is parsed and must be escaped)
            let name = if !scripting && r.chance(1, 4) { "noscript" } else { *r.pick(ORDINARY) };
            let mut attrs = Vec::new();
            let names = ["id", "class", "title", "data-x", "a"];
            let k = r.below(3);
            for j in 0..k {
                attrs.push(Attribute { name: QualName::new(None, markup5ever::ns!(), LocalName::from(names[(j + r.below(2)) % names.len()])),
                                       value: StrTendril::from_slice(&rand_string(r, 6)) });
            }
            attrs.dedup_by(|a, b| a.name == b.name);
            if attrs.len() == 2 && attrs[0].name == attrs[1].name {
                attrs.pop();
            }
            let el = create_element(sink, QualName::new(None, markup5ever::ns!(html), LocalName::from(name)), attrs);
            sink.append(parent, NodeOrText::AppendNode(el.clone()));
            if depth < 3 {
                gen_children(r, sink, &el, depth + 1, budget, scripting);
            }
            last_text = false;
        }
    }
}

fn ctx_name() -> QualName {
    QualName::new(None, markup5ever::ns!(html), LocalName::from("div"))
}

/// tree for a TLC-exported string s: div > [ text s, span[x=s] > text s ]
fn tree_for_string(sink: &RcDom, root: &Handle, s: &str) {
    if !s.is_empty() {
        sink.append(root, NodeOrText::AppendText(StrTendril::from_slice(s)));
    }
    let el = create_element(sink, QualName::new(None, markup5ever::ns!(html), LocalName::from("span")),
        vec![Attribute { name: QualName::new(None, markup5ever::ns!(), LocalName::from("x")), value: StrTendril::from_slice(s) }]);
    sink.append(root, NodeOrText::AppendNode(el.clone()));
    if !s.is_empty() {
        sink.append(&el, NodeOrText::AppendText(StrTendril::from_slice(s)));
    }
}

/// build the children described by a canonical tree (as exported by MC_HtmlRoundTrip) under `parent`
fn build_from_json(sink: &RcDom, parent: &Handle, ch: &Value) {
    for n in ch.as_array().unwrap() {
        match n["k"].as_str().unwrap() {
            "text" => sink.append(parent, NodeOrText::AppendText(StrTendril::from_slice(&from_cps(&n["s"])))),
            "el" => {
                let attrs = n["attrs"].as_array().unwrap().iter().map(|a| Attribute {
                    name: QualName::new(None, markup5ever::ns!(), LocalName::from(&*from_cps(&a["local"]))),
                    value: StrTendril::from_slice(&from_cps(&a["v"])),
                }).collect();
                let el = create_element(sink, QualName::new(None, markup5ever::ns!(html), LocalName::from(&*from_cps(&n["local"]))), attrs);
                sink.append(parent, NodeOrText::AppendNode(el.clone()));
                build_from_json(sink, &el, &n["ch"]);
            },
            _ => {},
        }
    }
}

fn roundtrip(r: &mut Rng, id: u64, out: &mut Out, fixed: Option<&str>) {
    roundtrip_case(r, id, out, fixed, None)
}

fn roundtrip_case(r: &mut Rng, id: u64, out: &mut Out, fixed: Option<&str>, tree: Option<&Value>) {
    let scripting = match tree {
        Some(t) => t["scripting"].as_bool().unwrap_or(true),
        None => fixed.is_some() || !r.chance(1, 3),
    };
    let sink = RcDom::default();
    let root = create_element(&sink, ctx_name(), vec![]);
    let mut budget = 10;
    match (tree, fixed) {
        (Some(t), _) => build_from_json(&sink, &root, &t["tree"]),
        (None, Some(s)) => tree_for_string(&sink, &root, s),
        (None, None) => gen_children(r, &sink, &root, 0, &mut budget, scripting),
    }
    let t1 = Value::Array(root.children.borrow().iter().map(dump).collect());
    match ser(&root, TraversalScope::ChildrenOnly(Some(ctx_name())), scripting) {
        Ok(bytes) => {
            let r2 = catch(|| {
                // the serialized text is a character string, not a byte stream: no byte order mark handling
                let mut popts = ParseOpts::default();
                popts.tokenizer.discard_bom = false;
                popts.tree_builder.scripting_enabled = scripting;
                let dom = parse_fragment(RcDom::default(), popts, ctx_name(), vec![], scripting).one(StrTendril::from_slice(&bytes));
                // fragment result: document > html > children
                let html = dom.document.children.borrow()[0].clone();
                let v = Value::Array(html.children.borrow().iter().map(dump).collect());
                v
            });
            match r2 {
                Ok(t2) => out.line(&json!({"ev":"rt","case":id,"t1":t1,"ser":cps(&bytes),"t2":t2,"panic":[],"scripting":scripting})),
                Err(m) => out.line(&json!({"ev":"rt","case":id,"t1":t1,"ser":cps(&bytes),"t2":[],"panic":[cps(&m)],"scripting":scripting})),
            }
        },
        Err(m) => out.line(&json!({"ev":"rt","case":id,"t1":t1,"ser":[],"t2":[],"panic":[cps(&m)],"scripting":scripting})),
    }
}

/// for every element below `h`: inner / outer serializations
fn inner_outer(h: &Handle, scripting: bool, id: u64, out: &mut Out, n: &mut usize, src: &str) {
    for c in h.children.borrow().iter() {
        if let NodeData::Element { name, template_contents, .. } = &c.data {
            *n += 1;
            let inner = ser(c, TraversalScope::ChildrenOnly(Some(name.clone())), scripting);
            let outer = ser(c, TraversalScope::IncludeNode, scripting);
            let kids = c.children.borrow();
            let single_text: Value = if kids.len() == 1 {
                if let NodeData::Text { contents } = &kids[0].data { json!([cps(&contents.borrow())]) } else { json!([]) }
            } else {
                json!([])
            };
            let (i, o, p) = match (inner, outer) {
                (Ok(i), Ok(o)) => (cps(&i), cps(&o), json!([])),
                (Err(m), _) | (_, Err(m)) => (json!([]), json!([]), json!([cps(&m)])),
            };
            out.line(&json!({"ev":"io","case":id,"ns":ns_tag(&name.ns),"local":cps(&name.local),"nchildren":kids.len(),
                             "single_text":single_text,"scripting":scripting,"inner":i,"outer":o,"panic":p,
                             "is_template": template_contents.borrow().is_some(), "src": cps(src)}));
            drop(kids);
            inner_outer(c, scripting, id, out, n, src);
        }
    }
}

const DOCS: &[&str] = &[
    "<p>a&amp;b<b>c</b><br><img src=x><input value='\"'>", "<style>a<b>&amp;</style><script>if(a<b&&c>d){}</script>", "<title>t&amp;<x></title><textarea>\n&lt;</textarea>",
    "<svg><style>a<b</style><script>x&amp;y</script><title>q&lt;</title><foreignObject><p>z&amp;</p></foreignObject></svg>", "<math><mi>x&lt;</mi><annotation-xml><style>s<</style></annotation-xml></math>",
    "<noscript>a<b>&amp;</b></noscript>", "<noscript>a&amp;b &lt;i&gt;</noscript>", "<div><noscript>&lt;/noscript&gt;&lt;img&gt;</noscript></div>", "<template><p>x&amp;y</p></template><xmp><b>&</xmp>", "<iframe><b>&</iframe><noembed><i>&</noembed><noframes><u>&</noframes>", "<plaintext><b>&",
    "<table><tr><td>a&nbsp;b<col></table>", "<pre>\n\nx</pre><listing>\ny</listing><div title=\"a&amp;b &lt; &gt; &quot; \u{a0} \u{a9}\">\u{a9}\u{a0}\u{e9}\u{80}</div>", "<select><option>o&amp;</select><a href=\"?a=1&b=2\">l</a>",
    "<svg xlink:href=a xml:lang=b xmlns:xlink=c><a xlink:href='\"'/></svg>", "<div><!--c--><?pi?><![CDATA[x]]></div>", "<body a=b><frameset>", "<head><meta charset=x><link><base><script></script></head>",
];

pub fn main(args: &Args) {
    let mut out = Out::new();
    let mut r = Rng::new(args.num("seed", 1));
    let mode = args.get("mode").unwrap_or("roundtrip");
    let n = args.num("n", 100);
    match mode {
        "roundtrip" => {
            if args.has("replay") {
                let mut id = 0;
                for c in read_cases() {
                    if c.get("s").is_some() {
                        id += 1;
                        roundtrip(&mut r, id, &mut out, Some(&from_cps(&c["s"])));
                    } else if c.get("tree").is_some() {
                        id += 1;
                        roundtrip_case(&mut r, id, &mut out, None, Some(&c));
                    } else if c["ev"] == "rt" {
                        // a recorded round trip: the tree is rebuilt from its dump and put through the current code again
                        id += 1;
                        let t = json!({"tree": c["t1"], "scripting": c.get("scripting").cloned().unwrap_or(json!(true))});
                        roundtrip_case(&mut r, id, &mut out, None, Some(&t));
                    }
                }
            } else {
                for id in 1..=n {
                    roundtrip(&mut r, id, &mut out, None);
                }
            }
        },
        _ => {
            // inner/outer on parsed documents: fixed corpus, family soup, random trees with special parents
            let mut id = 0u64;
            if args.has("replay") {
                // recorded inner/outer cases: each distinct (document, scripting) is parsed and serialized again
                let mut seen: Vec<(String, bool)> = Vec::new();
                for c in read_cases() {
                    if c["ev"] != "io" || c.get("src").is_none() {
                        continue;
                    }
                    let key = (from_cps(&c["src"]), c["scripting"].as_bool().unwrap_or(true));
                    if seen.contains(&key) {
                        continue;
                    }
                    seen.push(key.clone());
                    id += 1;
                    let opts = ParseOpts { tree_builder: TreeBuilderOpts { scripting_enabled: key.1, ..Default::default() }, ..Default::default() };
                    if let Ok(dom) = catch(|| parse_document(RcDom::default(), opts).one(StrTendril::from_slice(&key.0))) {
                        let mut cnt = 0;
                        inner_outer(&dom.document, key.1, id, &mut out, &mut cnt, &key.0);
                    }
                }
                out.flush();
                return;
            }
            let mut texts: Vec<String> = DOCS.iter().map(|s| s.to_string()).collect();
            for _ in 0..n {
                let fam = r.pick(crate::parsegen::FAMILIES).1;
                let k = 1 + r.below(8);
                let mut s = String::new();
                for _ in 0..k {
                    if r.chance(1, 4) {
                        s.push_str(&rand_string(&mut r, 5));
                    } else {
                        let w: &str = *r.pick(fam);
                        s.push_str(w);
                    }
                }
                texts.push(s);
            }
            for t in texts {
                for scripting in [true, false] {
                    id += 1;
                    let opts = ParseOpts { tree_builder: TreeBuilderOpts { scripting_enabled: scripting, ..Default::default() }, ..Default::default() };
                    let r = catch(|| parse_document(RcDom::default(), opts).one(StrTendril::from_slice(&t)));
                    if let Ok(dom) = r {
                        let mut cnt = 0;
                        inner_outer(&dom.document, scripting, id, &mut out, &mut cnt, &t);
                    }
                }
            }
        },
    }
    out.flush();
}
