SPECIFICATION Spec
CONSTANTS
  Bytes <- MC_Bytes
  MaxLen = 5
  MaxChunk = 5
  DoExport = TRUE
INVARIANTS CarryOk Streaming Final ExportDone
VIEW View
CHECK_DEADLOCK FALSE
