"""C11 - tendrils behave as independent owned strings under every operation."""
import os
from . import core
from .core import Run, WORK

RULE = ("MC_Tendril explores all operation histories over a pool of 3 tendrils on the L1 representation machine (inline / "
        "owned / shared, refcounts, offsets, capacities) with small constants and with the real constants (8/16), checking "
        "View = L0 value, validity and the heap invariants in every state; every history explored with the real constants "
        "is replayed on real tendrils (Bytes and UTF-8) and seeded random histories (Bytes, UTF-8, ASCII, Latin-1; "
        "push, push_tendril, subtendril, pop front/back, clone, clear, DerefMut writes, reserve, SendTendril round trip, drop) "
        "are recorded; TLC judges every step: result (ok / oob / validation / invalid) and the bytes of every live tendril "
        "equal the independent L0 byte-string model.")
SPEC, CFG = "Trace_Tendril.tla", "Trace_Tendril.cfg"


def classify(f, objs):
    return False


def body(prop, rule, tier, seed, replay):
    r = Run(prop, tier, seed)
    core.build_harness()
    env = {"PROP": prop}
    if replay:
        meta, lines = core.load_replay(replay)
        src = os.path.join(WORK, "traces", "%s-replay-in.ndjson" % prop)
        import json
        ops = [json.loads(l) for l in lines]
        hdr = [o for o in ops if o.get("ev") == "reset"]
        case = {"fmt": hdr[0]["fmt"] if hdr else "bytes", "slots": hdr[0].get("slots", 6) if hdr else 6,
                "ops": [o for o in ops if o.get("ev") == "op"]}
        with open(src, "w") as f:
            f.write(json.dumps(case) + "\n")
        r.gen_validate("replay", ["tendril", "--replay"], SPEC, CFG, 1, classify, core.count_resets, stdin_files=[src], env=env)
        return r.finish(rule, write=False)
    q = tier == "quick"
    N = core.NCPU
    for (name, cfg, export) in [("small-bytes", "MC_Tendril.cfg", False), ("small-utf8", "MC_Tendril_utf8.cfg", False),
                                ("real-bytes", "MC_Tendril_real_quick.cfg" if q else "MC_Tendril_real.cfg", True),
                                ("real-utf8", "MC_Tendril_real_utf8.cfg", True)]:
        cases = os.path.join(WORK, "traces", "%s-mc-%s.ndjson" % (prop, name))
        res = core.tlc_mc("%s-mc-%s" % (prop, name), "MC_Tendril.tla", cfg, replay_out=cases if export else None, timeout=5000, xmx="24g")
        r.add_mc(cfg, res)
        if export and res["ok"] and res["replays"]:
            parts, n = core.split_file(cases, N * (1 if q else 4))
            r.gen_validate("mc-histories-" + name, ["tendril", "--replay"], SPEC, CFG, len(parts), classify, core.count_resets,
                           stdin_files=parts, env=env, timeout=5000)
    if prop == "C12":
        res = core.tlc_mc("C12-conc", "TendrilConc.tla", "TendrilConc.cfg" if q else "TendrilConc_thorough.cfg", timeout=3000)
        r.add_mc("TendrilConc", res)
        # the same protocol with an unbounded number of views: inductive invariant discharged by Apalache (symbolic)
        steps = [("init", "Init", "IndInv", 0), ("step", "IndInit", "IndInv", 1), ("implies-safety", "IndInit", "Safety", 0)]
        ap = [core.apalache_check("C12-apalache-" + n, "TendrilConcInd.tla", init, inv, k) for (n, init, inv, k) in steps]
        r.extra["apalache_inductive_invariant"] = [dict(step=steps[i][0], init=steps[i][1], inv=steps[i][2], length=steps[i][3],
                                                        outcome=a["outcome"], wall_s=a["wall_s"]) for i, a in enumerate(ap)]
        for i, a in enumerate(ap):
            core.log("[apalache] TendrilConcInd %s: %s (%.0fs)" % (steps[i][0], a["outcome"], a["wall_s"]))
            if not a["ok"]:
                r.tool_errors.append("apalache %s: outcome %s (see %s)" % (steps[i][0], a["outcome"], a["log"]))
        r.gen_validate("threads", ["tendril-mt", "--n", 300 if q else 5000], SPEC, CFG, 4, classify, core.count_resets, env=env)
    r.gen_validate("random-histories", ["tendril", "--n", 250 if q else 5000, "--ops", 60], SPEC, CFG, N, classify, core.count_resets,
                   env=env, timeout=5000)
    r.gen_validate("random-histories-atomic", ["tendril", "--n", 60 if q else 1500, "--ops", 60, "--atomic"], SPEC, CFG, N, classify,
                   core.count_resets, env=env, timeout=5000)
    return r


def run(tier, seed, replay=None):
    r = body("C11", RULE, tier, seed, replay)
    if isinstance(r, int):
        return r
    r.assumptions = ["conversions between formats (as_superset, try_reinterpret, into_bytes) are not generated",
                     "the L1 representation is checked at model level; real representations are not observed (no hook), only values"]
    return r.finish(RULE)
