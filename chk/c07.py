"""C07 - HTML serializer output re-parses to the same tree; inner equals outer."""
import os
from . import core
from .core import Run, WORK

RULE = ("MC_HtmlSer: for every string up to 3/4 characters over a 23-character alphabet (& < > quotes NBSP ; # = - and "
        "U+00A9, U+00E9, U+FEFF ...) the WHATWG tokenizer applied to the standard's escaping of the string gives back "
        "exactly the string, as text and as a double-quoted attribute value; every such string is put through the real "
        "serializer and the real fragment parser.  Random trees over ordinary elements with arbitrary attribute values and "
        "text (all of U+0080..U+00BF, astral, U+FEFF; no CR/NUL) are serialized as the children of a div and parsed back as "
        "a fragment; TLC judges tree equality.  For every element of real parsed trees (fixed corpus with raw-text, void, "
        "noscript, template, SVG/MathML style/script elements; family soup; both scripting settings) TLC judges that the "
        "children-only serialization equals the text between start and end tag of the element's own serialization, and "
        "that a single text child is verbatim iff the parent is an HTML raw-text element.")
SPEC, CFG = "Trace_HtmlSer.tla", "Trace_HtmlSer.cfg"


def classify(f, objs):
    return False


def run(tier, seed, replay=None):
    r = Run("C07", tier, seed)
    core.build_harness()
    if replay:
        # the recorded case is put through the current code again: a round trip is rebuilt from its dumped tree, an
        # inner/outer case from its document source
        meta, lines = core.load_replay(replay)
        for (kind, mode) in (("rt", "roundtrip"), ("io", "inner")):
            sel = [l for l in lines if '"ev":"%s"' % kind in l]
            if not sel:
                continue
            src = os.path.join(WORK, "traces", "C07-replay-in-%s.ndjson" % kind)
            with open(src, "w") as f:
                f.write("\n".join(sel) + "\n")
            r.gen_validate("replay-" + kind, ["hser", "--mode", mode, "--replay"], SPEC, CFG, 1, classify, core.count_lines, stdin_files=[src])
        return r.finish(RULE, write=False)
    q = tier == "quick"
    N = core.NCPU
    cases = os.path.join(WORK, "traces", "C07-mc-cases.ndjson")
    res = core.tlc_mc("C07-mc", "MC_HtmlSer.tla", "MC_HtmlSer.cfg" if q else "MC_HtmlSer_thorough.cfg", replay_out=cases, timeout=5000, xmx="16g")
    r.add_mc("MC_HtmlSer", res)
    if res["ok"]:
        parts, n = core.split_file(cases, N)
        r.gen_validate("mc-strings", ["hser", "--mode", "roundtrip", "--replay"], SPEC, CFG, len(parts), classify, core.count_lines,
                       stdin_files=parts, timeout=5000)
    # design-level round trip on trees: Parse_L0(Serialize_L0(t)) = t for every small tree (MC_HtmlRoundTrip, both scripting
    # settings); each explored tree then goes through the real serializer and the real fragment parser
    allt = os.path.join(WORK, "traces", "C07-roundtrip-trees.ndjson")

    def rt(name):
        out = os.path.join(WORK, "traces", "C07-%s-cases.ndjson" % name)
        return name, out, core.tlc_mc("C07-" + name, "MC_HtmlRoundTrip.tla", name + ("" if q else "_thorough") + ".cfg", workers=8,
                                      replay_out=out, timeout=6000, xmx="12g")
    with open(allt, "w") as w:
        for (name, out, res2) in core.parallel([(rt, (n,), {}) for n in ("MC_HtmlRoundTrip", "MC_HtmlRoundTrip_noscripting")], max_workers=2):
            r.add_mc(name, res2)
            if res2["ok"]:
                with open(out) as f:
                    w.write(f.read())
    parts, ntrees = core.split_file(allt, N)
    r.gen_validate("mc-trees", ["hser", "--mode", "roundtrip", "--replay"], SPEC, CFG, len(parts), classify, core.count_lines,
                   stdin_files=parts, timeout=5000)
    r.extra["mc_trees_replayed"] = ntrees
    r.gen_validate("random-trees", ["hser", "--mode", "roundtrip", "--n", 1500 if q else 20000], SPEC, CFG, N, classify, core.count_lines, timeout=5000)
    r.gen_validate("inner-outer", ["hser", "--mode", "inner", "--n", 150 if q else 3000], SPEC, CFG, N, classify, core.count_lines, timeout=5000)
    r.assumptions = ["ordinary elements: div span b i em strong section blockquote u code (no void, raw-text or implied-end-tag elements)",
                     "the re-parse treats the serialized text as a character string (discard_bom off)",
                     "generated trees have no adjacent or empty text nodes (they could not be the result of any parse)"]
    return r.finish(RULE)
