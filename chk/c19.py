"""C19 - encoding indicators are raised exactly for meta-declared encodings."""
import os
from . import core
from .core import Run, WORK
from .sinkcommon import run_sink_property

RULE = ("(a) MC_MetaCharset enumerates all content strings of <= 4/5 pieces (positions of 'charset', whitespace, '=', quotes, "
        "terminators, truncation), checks invariants of the extraction algorithm and exports each string; the harness hands "
        "a meta start tag with 6 attribute-set variants per string (pragma in both orders, wrong http-equiv, no "
        "http-equiv, charset attribute, both) directly to the real tree builder and TLC judges the reply against "
        "MetaCharset!DeclaredLabel; plus random attribute sets.  (b) On traces of real parses that route <meta> through "
        "every insertion mode (family enumerations, fragments, 1-char chunkings) TLC checks per token: encoding "
        "indicator <=> meta start tag whose processing created and inserted an HTML meta element and which declares a label; "
        "label equal; the element is in the tree before the reply.")


def classify(f, objs):
    return False


def run(tier, seed, replay=None):
    q = tier == "quick"
    N = core.NCPU
    if replay:
        meta, lines = core.load_replay(replay)
        if meta.get("sub") == "meta":
            r = Run("C19", tier, seed)
            src = os.path.join(WORK, "traces", "C19-replay-in.ndjson")
            with open(src, "w") as f:
                f.write("\n".join(lines) + "\n")
            r.gen_validate("replay", ["meta", "--replay"], "Trace_Meta.tla", "Trace_Meta.cfg", 1, classify, core.count_lines, stdin_files=[src])
            return r.finish(RULE, write=False)
        return run_sink_property("C19", RULE, tier, seed, replay, [], [])
    r = Run("C19", tier, seed)
    core.build_harness()
    cases = os.path.join(WORK, "traces", "C19-mc-cases.ndjson")
    res = core.tlc_mc("C19-mc", "MC_MetaCharset.tla", "MC_MetaCharset.cfg" if q else "MC_MetaCharset_thorough.cfg", replay_out=cases, timeout=3000)
    r.add_mc("MC_MetaCharset", res)
    if res["ok"]:
        parts, n = core.split_file(cases, N)
        r.gen_validate("extract-domain", ["meta", "--replay"], "Trace_Meta.tla", "Trace_Meta.cfg", len(parts), classify, core.count_lines, stdin_files=parts)
        r.extra["mc_strings_replayed"] = n
    r.gen_validate("random-attrs", ["meta", "--n", 3000 if q else 50000], "Trace_Meta.tla", "Trace_Meta.cfg", N, classify, core.count_lines)
    env = {"PROP": "C19"}
    for (label, args, shards) in [
        ("modes-enum-head", ["parse", "--mode", "enum", "--family", "meta", "--k", 2 if q else 3, "--pieces", 33], N),
        ("modes-enum-1char", ["parse", "--mode", "enum", "--family", "meta", "--k", 2, "--pieces", 18, "--chunk", "chars"], N),
        ("random", ["parse", "--mode", "random", "--n", 800 if q else 10000, "--maxpieces", 14], N)]:
        r.gen_validate(label, args, "Trace_Sink.tla", "Trace_Sink.cfg", shards, classify, core.count_resets, env=env, timeout=5000)
    r.assumptions = ["labels are compared as written; whether a label names a supported encoding is the embedder's concern",
                     "'resuming continues as if nothing had happened' is judged as part of C02/C03 (the harness always resumes "
                     "after an indicator, and those trees are judged against the reference)"]
    return r.finish(RULE)
