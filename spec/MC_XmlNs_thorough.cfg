SPECIFICATION Spec
CONSTANTS
  MaxTags = 3
  DoExport = TRUE
INVARIANTS ScopeRefines StackBalanced Export
CHECK_DEADLOCK FALSE
