//! Case generators for the HTML tokenizer harness.
use crate::tok::*;
use crate::util::*;
use serde_json::{json, Value};

pub const PIECES: &[&str] = &[
    "<", ">", "/", "!", "-", "a", " ", "=", "\"", "&", ";", "#", "'", "?", "\n", "\r", "\t", "\x0c", "\0", "B", "x", "X",
    "]", "1", "`", "\u{e9}", "script", "title", "doctype", "PUBLIC", "SYSTEM", "[CDATA[", "amp", "notit", "--", "ti",
];

pub fn std_replies() -> Value {
    json!([
        {"k":"start","name":cps("title"),"r":"rcdata"},
        {"k":"start","name":cps("textarea"),"r":"rcdata"},
        {"k":"start","name":cps("style"),"r":"rawtext"},
        {"k":"start","name":cps("xmp"),"r":"rawtext"},
        {"k":"start","name":cps("script"),"r":"script_data"},
        {"k":"start","name":cps("plaintext"),"r":"plaintext"},
        {"k":"end","name":cps("script"),"r":"script"},
    ])
}

fn mk(state: &str, last: &Value, cdata: bool, rs: &str, text: &str) -> Value {
    json!({"state":state,"last":last,"cdata":cdata,"rs":rs,"chunks":[cps(text)],"exact":false,"bom":false,"inject":[]})
}

/// every piece-string of length <= k from every start state x last-start-tag x CDATA answer
pub fn enumerate(k: usize, shard: u64, shards: u64, pieces: &[&str], f: &mut dyn FnMut(Value)) {
    let lasts = [json!([]), json!([cps("title")]), json!([cps("script")])];
    let replies = "std";
    let none = "none";
    let mut n: u64 = 0;
    let np = pieces.len();
    for st in START_STATES {
        for (li, last) in lasts.iter().enumerate() {
            for cdata in [false, true] {
                // the CDATA answer only matters where a markup declaration can open
                if cdata && !(st.starts_with("Data") || *st == "TagOpen" || *st == "MarkupDeclarationOpen" || st.starts_with("Cdata")) {
                    continue;
                }
                // the last start tag only matters in raw-data end-tag states
                if li > 0 && !(st.starts_with("Raw") || *st == "Data" || *st == "TagOpen") {
                    continue;
                }
                for len in 0..=k {
                    let total = np.pow(len as u32);
                    for idx in 0..total {
                        n += 1;
                        if n % shards != shard {
                            continue;
                        }
                        let mut s = String::new();
                        let mut x = idx;
                        for _ in 0..len {
                            s.push_str(pieces[x % np]);
                            x /= np;
                        }
                        // replies: with and without (without only for the first cdata/last combination)
                        f(mk(st, last, cdata, replies, &s));
                        if li == 0 && !cdata && len <= 1 {
                            f(mk(st, last, cdata, none, &s));
                        }
                    }
                }
            }
        }
    }
}

/// Data-state prefixes that bring the tokenizer into deep states (attribute values, comments,
/// doctype identifiers, raw text, escaped script data, CDATA); pieces are enumerated after them.
pub const PREFIXES: &[(&str, bool)] = &[
    ("<a b=", false), ("<a b=\"", false), ("<a b='", false), ("<a b", false), ("<a b ", false), ("</a ", false),
    ("<a b=c d", false), ("<a b=\"c\"", false), ("<!--", false), ("<!--x-", false), ("<!DOCTYPE a", false),
    ("<!DOCTYPE a PUBLIC \"", false), ("<!DOCTYPE a SYSTEM '", false), ("<!DOCTYPE a PUBLIC \"p\"", false),
    ("<title>", false), ("<title></ti", false), ("<xmp>", false), ("<script>", false), ("<script><!--", false),
    ("<script><!--<script>", false), ("<script><!--<script></", false), ("<plaintext>", false), ("<![CDATA[", true),
    ("<![CDATA[x]", true), ("x&", false), ("<a b=&amp", false), ("<a b=\"&not", false), ("<a b='&lt", false), ("<a b=&", false), ("<a b=\"&", false), ("<title>&", false),
];

pub fn enumerate_prefixed(k: usize, shard: u64, shards: u64, pieces: &[&str], only: Option<&str>, f: &mut dyn FnMut(Value)) {
    let none = json!([]);
    let np = pieces.len();
    let mut n: u64 = 0;
    for (pre, cdata) in PREFIXES {
        if let Some(o) = only {
            if !pre.contains(o) {
                continue;
            }
        }
        for len in 0..=k {
            let total = np.pow(len as u32);
            for idx in 0..total {
                n += 1;
                if n % shards != shard {
                    continue;
                }
                let mut s = String::from(*pre);
                let mut x = idx;
                for _ in 0..len {
                    s.push_str(pieces[x % np]);
                    x /= np;
                }
                f(mk("Data", &none, *cdata, "std", &s));
            }
        }
    }
}

fn rand_unicode(r: &mut Rng) -> char {
    loop {
        let c = match r.below(8) {
            0 => r.below(0x80) as u32,
            1 => 0x80 + r.below(0x80) as u32,
            2 => *r.pick(&[0xfeffu32, 0xfffd, 0xfffe, 0xffff, 0x1fffe, 0x10ffff, 0xfdd0, 0xd7ff, 0xe000, 0x85, 0x2028, 0xa0, 0x7f, 0x0b, 0x01]),
            3 => 0x100 + r.below(0x2000) as u32,
            4 => 0x10000 + r.below(0x10000) as u32,
            _ => 0x20 + r.below(0x5f) as u32,
        };
        if let Some(ch) = char::from_u32(c) {
            return ch;
        }
    }
}

const WORDS: &[&str] = &[
    "<", "</", ">", "/>", "<!--", "-->", "--!>", "<!", "<?", "<!DOCTYPE", "<!doctype html", " PUBLIC ", " SYSTEM ", "\"", "'", "=",
    " ", "\n", "\r", "\r\n", "\t", "\x0c", "\0", "&", "&amp;", "&amp", "&lt", "&notit;", "&noti", "&#", "&#x", "&#65;", "&#x41", "&#0;",
    "&#x110000;", "&#1234567890123;", "&#128;", "&#xD800;", ";", "a", "b", "div", "title", "script", "style", "textarea", "plaintext",
    "xmp", "<script>", "</script>", "<title>", "</title>", "<style>", "</style>", "<![CDATA[", "]]>", "]", "<!--<!--", "<!-", "--",
    "-", "!", "x=y", "x='y'", "x=\"y\"", "A", "Z", "é", "\u{feff}", "`", "<a ", "<a b", "<a b=", "</a ", "<script><!--", "<script><!--<script>",
];

pub fn random_text(r: &mut Rng, maxlen: usize) -> String {
    let n = r.below(maxlen + 1);
    let mut s = String::new();
    let style = r.below(4);
    while s.chars().count() < n {
        match (style, r.below(10)) {
            (0, _) | (_, 0..=5) => { let w: &str = *r.pick(WORDS); s.push_str(w) },
            (1, _) | (_, 6..=7) => s.push(rand_unicode(r)),
            _ => s.push((0x20 + r.below(0x5f) as u8) as char),
        }
    }
    s
}

pub fn random_case(r: &mut Rng, maxlen: usize) -> Value {
    let st = if r.chance(1, 2) { "Data" } else { *r.pick(START_STATES) };
    let last = match r.below(4) {
        0 => json!([cps("title")]),
        1 => json!([cps("script")]),
        2 => json!([cps(*r.pick(&["a", "style", "xmp", "textarea"]))]),
        _ => json!([]),
    };
    let replies = if r.chance(3, 4) { "std" } else { "none" };
    mk(st, &last, r.chance(1, 3), replies, &random_text(r, maxlen))
}

/// SIMD-stride-directed data-state inputs: stop characters / newlines / multi-byte characters at
/// every offset modulo 16 across three strides.
pub fn stride_cases(f: &mut dyn FnMut(Value)) {
    // a line break at every position p before a stop character at every position q (three strides)
    for q in 1..50usize {
        for p in 0..q {
            if q > 20 && p + 3 < q && p % 16 != 0 && p % 16 != 15 {
                continue;
            }
            for (nl, stop) in [("\n", "<b>"), ("\n", "&amp;"), ("\n", "\r"), ("\n", "\0"), ("\n", "\n<")] {
                let mut s = String::new();
                for i in 0..q {
                    if i == p { s.push_str(nl) } else { s.push('y') }
                }
                s.push_str(stop);
                s.push_str("tail");
                f(mk("Data", &json!([]), false, "std", &s));
            }
        }
    }
    let specials = ["<", "&", "\r", "\0", "\n", "\r\n", "é", "\u{10000}", "<b>", "&amp;"];
    let none = json!([]);
    for off in 0..49usize {
        for sp in specials {
            for lead in ["x", "\n"] {
                let mut s = String::new();
                s.push_str(lead);
                while s.len() < off {
                    s.push('y');
                }
                s.push_str(sp);
                s.push_str("zzzzzzzzzzzzzzzzzz\nw");
                f(mk("Data", &none, false, "std", &s));
            }
        }
    }
}

pub const BOM_PIECES: &[&str] = &["\u{feff}", "a", "<", "\n", "&", "b>", "-", "\r", "</script>", "<script>"];

/// what can follow inside / after an attribute: line breaks of every kind, the characters that are errors in an
/// unquoted value, quotes, separators
pub const ATTR_PIECES: &[&str] = &["\r", "\n", "<", "=", "`", "x", ">", "\"", " ", "'", "&", "\t"];

pub const LINE_PIECES: &[&str] = &[
    "\n", "\r", "<", ">", "a", "=", "\"", "&", "-", "!", " ", "/", ";", "#", "'", "doctype", "PUBLIC", "amp", "--", "script", "[CDATA[", "]",
];

/// all ways to cut `text` into consecutive chunks at character boundaries (2^(n-1)); for longer
/// texts: the unsplit text, every single cut, all-single-character chunks, and a few random cuts
pub fn chunkings(text: &str, how: &str, r: &mut Rng) -> Vec<Vec<String>> {
    let chars: Vec<char> = text.chars().collect();
    let n = chars.len();
    let cut = |mask: &dyn Fn(usize) -> bool| -> Vec<String> {
        let mut v = Vec::new();
        let mut cur = String::new();
        for i in 0..n {
            cur.push(chars[i]);
            if i + 1 < n && mask(i) {
                v.push(std::mem::take(&mut cur));
            }
        }
        v.push(cur);
        v
    };
    let mut out = vec![vec![text.to_string()]];
    if how == "none" || n <= 1 {
        return out;
    }
    if how == "chars" {
        // only the all-1-character chunking (a suspension at every character boundary)
        return vec![cut(&|_| true)];
    }
    if how == "all" && n <= 7 {
        for m in 1u32..(1u32 << (n - 1)) {
            out.push(cut(&|i| (m >> i) & 1 == 1));
        }
        // with empty chunks around the single-character split
        let mut e = vec![String::new()];
        for c in &chars {
            e.push(c.to_string());
            e.push(String::new());
        }
        out.push(e);
        return out;
    }
    for k in 0..(n - 1) {
        out.push(cut(&|i| i == k));
    }
    out.push(cut(&|_| true));
    for _ in 0..3 {
        let seed = r.next();
        out.push(cut(&|i| (seed.wrapping_mul(i as u64 * 2 + 1) >> 17) & 3 == 0));
    }
    out
}

pub fn generate(args: &Args, fields: &str, out: &mut Out) {
    let mode = args.get("mode").unwrap_or("random");
    let shard = args.num("shard", 0);
    let shards = args.num("shards", 1).max(1);
    let how = args.get("chunk").unwrap_or("none").to_string();
    let opts = args.get("opts").unwrap_or("").to_string();
    let mut id = 0u64;
    let mut cr = Rng::new(args.num("seed", 1) ^ 0x5555);
    let pair = args.has("pair");
    let injects: Vec<String> = if args.has("inject") {
        vec!["".into(), "x".into(), "\n".into(), "<b>".into(), "</script>".into(), "a\r\nb".into(), "&am".into()]
    } else {
        vec![]
    };
    let mut group = 0u64;
    let mut emit = |c: Value, out: &mut Out| {
        let text = from_cps(&c["chunks"][0]);
        group += 1;
        // option variants: (exact_errors, discard_bom, profile)
        let variants: Vec<(bool, bool, bool)> = if opts == "all" {
            vec![(false, false, false), (true, false, false), (false, true, false), (true, true, false), (false, false, true), (true, true, true)]
        } else if opts == "bom" {
            vec![(false, true, false)]
        } else {
            vec![(false, false, false)]
        };
        let inj_list: Vec<Value> = if injects.is_empty() || !text.contains("</script") {
            vec![json!([])]
        } else {
            injects.iter().map(|s| json!([cps(s), cps(s)])).collect()
        };
        for inj in &inj_list {
            if pair {
                // reference: one piece, default options (same build)
                let mut c0 = c.clone();
                c0["inject"] = inj.clone();
                if opts == "bom" {
                    c0["bom"] = json!(true);
                }
                id += 1;
                let rr = run_tok(&c0);
                let mut l = case_line(&c0, id, &rr, fields);
                l["ev"] = json!("ref");
                l["group"] = json!(group);
                out.line(&l);
            }
            for ch in chunkings(&text, &how, &mut cr) {
                let mut c2 = c.clone();
                c2["inject"] = inj.clone();
                c2["chunks"] = Value::Array(ch.iter().map(|x| cps(x)).collect());
                for (exact, bom, profile) in &variants {
                    c2["exact"] = json!(exact);
                    c2["bom"] = json!(bom);
                    c2["profile"] = json!(profile);
                    id += 1;
                    let rr = run_tok(&c2);
                    let mut l = case_line(&c2, id, &rr, fields);
                    if pair {
                        l["ev"] = json!("var");
                        l["group"] = json!(group);
                    }
                    out.line(&l);
                }
            }
        }
    };
    match mode {
        "enum" => {
            let k = args.num("k", 2) as usize;
            let np = args.num("pieces", PIECES.len() as u64) as usize;
            let set: &[&str] = match args.get("pset") { Some("lines") => LINE_PIECES, Some("bom") => BOM_PIECES, _ => PIECES };
            enumerate(k, shard, shards, &set[..np.min(set.len())], &mut |c| emit(c, out));
        },
        "crbounds" => {
            // numeric character references at every boundary of the value space (C04: none may panic), in every context
            std::env::set_var("VH_NOTE", "1");
            let vals: [u64; 30] = [0, 1, 9, 0xA, 0xD, 0x7F, 0x80, 0x9F, 0xA0, 0xD7FF, 0xD800, 0xDBFF, 0xDC00, 0xDFFE, 0xDFFF, 0xE000, 0xFDD0, 0xFDEF, 0xFFFD,
                                   0xFFFE, 0xFFFF, 0x10000, 0x1FFFE, 0x10FFFF, 0x110000, 0x7FFF_FFFF, 0x8000_0000, 0xFFFF_FFFF, 0x1_0000_0000, 0x1_0000_DFFF];
            let mut all = Vec::new();
            for v in vals {
                for form in [format!("&#x{:X};", v), format!("&#x{:x}", v), format!("&#{};", v), format!("&#{}", v), format!("&#X{:X}z", v), format!("&#0000{};", v)] {
                    for (pre, post) in [("", ""), ("x", "y"), ("<a b=\"", "\">"), ("<a b=", ">"), ("<a b='", "'>"), ("<title>", "</title>"), ("<textarea>", ""), ("", "<")] {
                        all.push(mk("Data", &json!([]), false, "std", &format!("{}{}{}", pre, form, post)));
                    }
                }
            }
            for (i, c) in all.into_iter().enumerate() {
                if (i as u64) % shards == shard {
                    emit(c, out);
                }
            }
        },
        "scaled" => {
            // pathological lengths: long runs of one construct
            std::env::set_var("VH_NOTE", "1");
            let n = args.num("scale", 10000) as usize;
            let units = ["<", "<a", "<a b", "<a b=", "<a b=c ", "<!--", "-", "--", "<!DOCTYPE ", "&", "&a", "&#", "&#1", "&amp;", "&#x41;",
                         "\r", "\r\n", "\0", "x", "</", "<![CDATA[", "]", "<script>", "<script><!--<script>", "a=b ", "\"", "'", "<a x=\"", "&not", "é"];
            let mut all = Vec::new();
            for u in units {
                let reps = (n / u.len()).max(1);
                for pre in ["", "<a ", "<title>", "<script>", "<!--", "<a b=\"", "<!DOCTYPE x PUBLIC \""] {
                    let mut s = String::from(pre);
                    for _ in 0..reps {
                        s.push_str(u);
                    }
                    all.push(mk("Data", &json!([]), pre.is_empty(), "std", &s));
                }
            }
            for (i, c) in all.into_iter().enumerate() {
                if (i as u64) % shards == shard {
                    // one piece, and 1000-char chunks
                    id += 1;
                    let rr = run_tok(&c);
                    let mut l = case_line(&c, id, &rr, fields);
                    l["chunks"] = json!([]); // keep the trace small; the replay file has the generator args
                    l["toks"] = json!([]);
                    out.line(&l);
                    let text = from_cps(&c["chunks"][0]);
                    let chars: Vec<char> = text.chars().collect();
                    let mut c2 = c.clone();
                    c2["chunks"] = Value::Array(chars.chunks(997).map(|x| cps(&x.iter().collect::<String>())).collect());
                    id += 1;
                    let rr = run_tok(&c2);
                    let mut l = case_line(&c2, id, &rr, fields);
                    l["chunks"] = json!([]);
                    l["toks"] = json!([]);
                    out.line(&l);
                }
            }
        },
        "prefixed" => {
            let k = args.num("k", 2) as usize;
            let np = args.num("pieces", PIECES.len() as u64) as usize;
            let set: &[&str] = match args.get("pset") { Some("lines") => LINE_PIECES, Some("attr") => ATTR_PIECES, _ => PIECES };
            enumerate_prefixed(k, shard, shards, &set[..np.min(set.len())], args.get("prefix-contains"), &mut |c| emit(c, out));
        },
        "stride" => {
            let mut all = Vec::new();
            stride_cases(&mut |c| all.push(c));
            for (i, c) in all.into_iter().enumerate() {
                if (i as u64) % shards == shard {
                    emit(c, out);
                }
            }
        },
        _ => {
            let mut r = Rng::new(args.num("seed", 1));
            let n = args.num("n", 100);
            let maxlen = args.num("maxlen", 60) as usize;
            for _ in 0..n {
                let c = random_case(&mut r, maxlen);
                emit(c, out);
            }
        },
    }
}
