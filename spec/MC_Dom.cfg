SPECIFICATION Spec
CONSTANTS
  MaxNodes = 4
  MaxOps = 5
  DoExport = TRUE
INVARIANTS Consistent Acyclic AtMostOneParent Export
VIEW View
CHECK_DEADLOCK FALSE
