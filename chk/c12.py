"""C12 - tendril buffers are freed exactly once and never accessed out of bounds."""
from . import c11

RULE = ("Model: MC_Tendril checks the heap invariants in every state of every operation history (refcount = number of views, "
        "an owned buffer has one owner, every view within the initialised part of a live buffer within its capacity, freed only "
        "after the last user, nothing live when all tendrils are gone); TendrilConc explores every interleaving of clone / "
        "drop steps of up to 4-5 views over 3 threads with fetch_add / fetch_sub / destroy as separate atomic steps, and for an "
        "unbounded number of views an inductive invariant implying the same safety properties is discharged by Apalache "
        "(spec/apalache/TendrilConcInd.tla).  Real "
        "code: every replayed and random history, and multi-threaded runs distributing clones, subtendrils and SendTendrils "
        "of one atomic tendril over 2-4 threads, run under the harness's allocation observer (live table, guard zones, "
        "quarantine); TLC judges the recorded end-of-case report: every block freed exactly once, no damaged guard zone, "
        "nothing live, contents as expected.")


def run(tier, seed, replay=None):
    r = c11.body("C12", RULE, tier, seed, replay)
    if isinstance(r, int):
        return r
    r.assumptions = ["memory-ordering strength of the refcount atomics is invisible to an interleaving model and on x86",
                     "out-of-bounds *reads*, and writes beyond the 32-byte guard zones, are not observable by the allocation observer",
                     "thread schedules of the real runs are whatever the OS produces (sampled); all interleavings are explored only at model level"]
    return r.finish(RULE)
