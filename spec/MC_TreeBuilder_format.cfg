SPECIFICATION Spec
CONSTANTS
  MaxToks = 4
  VocabIdx = {1, 2, 3, 4, 5, 6, 7, 9, 11, 13, 17, 60}
  CtxIdx = {1, 2}
  Scripting = TRUE
  DoExport = TRUE
INVARIANTS Structure Ark TemplateModes AtEof FragEof Export
CHECK_DEADLOCK FALSE
