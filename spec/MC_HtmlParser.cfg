SPECIFICATION Spec
CONSTANTS
  MaxPieces = 4
  PieceSet <- MC_PiecesA
  DoExport = TRUE
INVARIANTS Wellformed Export
CHECK_DEADLOCK FALSE
