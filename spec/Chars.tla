------------------------------- MODULE Chars -------------------------------
(***************************************************************************)
(* Code-point classes and small sequence utilities shared by every module. *)
(* Text is a sequence of code points (naturals) everywhere: TLC strings    *)
(* cannot be indexed, and JSON traces carry arrays of integers.            *)
(***************************************************************************)
EXTENDS Naturals, Sequences

TAB == 9
LF == 10
FF == 12
CR == 13
SP == 32
NUL == 0
BOM == 65279
REPL == 65533

IsAsciiUpper(c) == c >= 65 /\ c <= 90
IsAsciiLower(c) == c >= 97 /\ c <= 122
IsAsciiAlpha(c) == IsAsciiUpper(c) \/ IsAsciiLower(c)
IsAsciiDigit(c) == c >= 48 /\ c <= 57
IsAsciiAlnum(c) == IsAsciiAlpha(c) \/ IsAsciiDigit(c)
IsUpperHex(c) == c >= 65 /\ c <= 70
IsLowerHex(c) == c >= 97 /\ c <= 102
IsAsciiHex(c) == IsAsciiDigit(c) \/ IsUpperHex(c) \/ IsLowerHex(c)
\* WHATWG "ASCII whitespace" as used by the tokenizer: TAB, LF, FF, SPACE
\* (CR never reaches the tokenizer after preprocessing).
IsWs(c) == c = TAB \/ c = LF \/ c = FF \/ c = SP
IsWsCr(c) == IsWs(c) \/ c = CR

Lower(c) == IF IsAsciiUpper(c) THEN c + 32 ELSE c
LowerSeq(s) == [i \in 1..Len(s) |-> Lower(s[i])]

IsSurrogate(c) == c >= 55296 /\ c <= 57343
IsNonchar(c) == (c >= 64976 /\ c <= 65007) \/ ((c % 65536) \in {65534, 65535} /\ c <= 1114111)
IsControl(c) == (c >= 0 /\ c <= 31) \/ (c >= 127 /\ c <= 159)

\* number of UTF-8 bytes of a scalar value
Utf8Len(c) == IF c < 128 THEN 1 ELSE IF c < 2048 THEN 2 ELSE IF c < 65536 THEN 3 ELSE 4

\* UTF-8 encoding of a scalar value as a sequence of bytes
Utf8Enc(c) ==
    IF c < 128 THEN <<c>>
    ELSE IF c < 2048 THEN <<192 + (c \div 64), 128 + (c % 64)>>
    ELSE IF c < 65536 THEN <<224 + (c \div 4096), 128 + ((c \div 64) % 64), 128 + (c % 64)>>
    ELSE <<240 + (c \div 262144), 128 + ((c \div 4096) % 64), 128 + ((c \div 64) % 64), 128 + (c % 64)>>

RECURSIVE Utf8EncSeq(_)
Utf8EncSeq(s) == IF s = <<>> THEN <<>> ELSE Utf8Enc(Head(s)) \o Utf8EncSeq(Tail(s))

\* generic helpers
MinN(a, b) == IF a <= b THEN a ELSE b
MaxN(a, b) == IF a >= b THEN a ELSE b
Drop(s, n) == SubSeq(s, n + 1, Len(s))
Take(s, n) == SubSeq(s, 1, n)
RangeOf(s) == {s[i] : i \in DOMAIN s}
IsPrefixOf(p, s) == Len(p) <= Len(s) /\ SubSeq(s, 1, Len(p)) = p

RECURSIVE Flatten(_)
Flatten(ss) == IF ss = <<>> THEN <<>> ELSE Head(ss) \o Flatten(Tail(ss))

\* length of the longest prefix of s all of whose elements satisfy ~InSet
RECURSIVE PrefixWhileNotIn(_, _, _)
PrefixWhileNotIn(s, set, i) ==
    IF i > Len(s) \/ s[i] \in set THEN i - 1 ELSE PrefixWhileNotIn(s, set, i + 1)
=============================================================================
