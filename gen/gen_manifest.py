#!/usr/bin/env python3
"""Regenerates /verif/MANIFEST.json from the table below (development aid; MANIFEST.json is committed)."""
import json, os
ROOT = os.path.dirname(os.path.dirname(os.path.abspath(__file__)))
HOOK_COMMITS = ["8deffc4"]
TECH = "TLA+ specification checked with TLC; spec->impl replay of TLC-explored behaviours and impl->spec trace validation of recorded real-code runs"
CHECKS = {
 "C01": dict(
   text="TLC explores the L0 transcription of the WHATWG tokenizer from every start state / last start tag / CDATA answer over all piece strings up to the bound (well-formedness invariants; totality by construction) and every explored input is replayed on the real tokenizer; exhaustive piece-string enumerations from every start state and after deep-state prefixes, SIMD-stride inputs and random Unicode strings are recorded from the real tokenizer and each is judged by TLC against Tokenize(cfg, Normalize(input)).",
   note="L0 is a transcription of WHATWG 13.2.5 with tables generated from independent sources (python html.entities, cp1252). Bounds: 2 (quick) / 3 (thorough) pieces of a 36-piece alphabet from 64 start states; 3/4 pieces of a 12-piece core alphabet; random strings <= 80/200 chars. Longer inputs are sampled, not enumerated.",
   ref="DESIGN.md section 5, C01"),
 "C10": dict(
   text="TLC checks that the streaming UTF-8 decoder model (carry buffer, try_complete_offsets, process loop, finish) refines lossy decoding per Unicode Table 3-7 for all byte strings over class representatives under every chunking, and that the decode_to_sink loop loses/duplicates nothing for every abstract encoding_rs decoder script; every explored input is replayed on the real Utf8LossyDecoder under all its chunkings, random inputs and all 40 encodings are recorded from the real code and judged by the TLA+ trace specifications (L0 Lossy / logged one-shot decode). Tree clause: markup bytes with ill-formed sequences spliced in are fed through parse_document().from_utf8() in one piece, byte by byte and under random cuts, and the delivered tree is judged by the L0 parser applied to L0 Lossy of the concatenated bytes (Trace_Parse).",
   note="Bounds: byte strings <= 4 over 10 (quick) / 18 (thorough) class representatives; abstract decoder scripts over 3/4 input bytes; encoding_rs tables are inputs (one-shot decode logged).",
   ref="DESIGN.md section 5, C10"),
 "C13": dict(
   text="TLC explores the complete bounded state graph of the queue (L1 byte-level eat/pop_except_from refine the L0 flat-string meaning; conservation and no-empty-buffer invariants); every transition of that graph is replayed on the real BufferQueue and every random history recorded from the real queue is validated event by event against the L0 specification.",
   note="Bounded: alphabet of 5 code points (1-, 2- and 4-byte), buffers <= 2-3 chars, <= 4-5 chars held; random histories of 60 calls. Patterns are non-empty; comparison functions are the two the tokenizers use.",
   ref="DESIGN.md section 5, C13"),
}
NOT_YET = {}
def load_extra():
    p = os.path.join(ROOT, "gen", "manifest_extra.json")
    if os.path.exists(p):
        d = json.load(open(p))
        CHECKS.update(d.get("checks", {}))
        NOT_YET.update(d.get("not_applicable", {}))
        HOOK_COMMITS[:] = d.get("hook_commits", HOOK_COMMITS)
load_extra()
ids = sorted(CHECKS)
for k in ["C%02d" % i for i in range(1, 21)]:
    if k not in CHECKS and k not in NOT_YET:
        NOT_YET[k] = "not claimed yet: the machinery for this property is still being built (the technique applies; design in DESIGN.md section 5)"
m = {
 "version": 1,
 "setup_cmd": "./check setup",
 "hooks": {
  "guard": "html5ever_verif",
  "enable": "harness/.cargo/config.toml: rustflags = [\"--cfg\", \"html5ever_verif\", \"--check-cfg\", \"cfg(html5ever_verif)\"] (the harness crate has path dependencies on /repo's crates, so every check rebuilds them from the working tree with the guard on)",
  "baseline_off_cmd": "cd /repo && cargo test --workspace --no-fail-fast --offline",
  "source_commits": HOOK_COMMITS,
  "add_only": True
 },
 "engines": [
  {"name": "tlc", "path": "spec/", "serves_properties": ids, "kind_free_text": "TLA+ specifications (L0 reference, L1 implementation-shaped), MC_* bounded instances and Trace_* trace specifications checked with TLC 1.8"},
  {"name": "harness", "path": "harness/", "serves_properties": ids, "kind_free_text": "Rust crate with path dependencies on /repo; drives the real code and projects its state to ndjson traces; makes no verdicts"},
  {"name": "apalache", "path": "spec/apalache/", "serves_properties": ["C12"], "kind_free_text": "one typed TLA+ module (unbounded refcount protocol) whose inductive invariant is discharged symbolically by Apalache 0.58 within the C12 check"},
  {"name": "orchestrator", "path": "check", "serves_properties": ids, "kind_free_text": "python3 (stdlib) driver: builds, runs TLC, replays TLC-exported behaviours on the code, validates recorded traces, matches known findings, writes evidence"}
 ],
 "checks": [
  {"property_id": i, "quick_cmd": "./check %s --tier quick" % i, "thorough_cmd": "./check %s --tier thorough" % i,
   "evidence_file": "evidence/%s.json" % i, "replay_cmd_template": "./check %s --replay {path}" % i, "engine": "tlc",
   "level_claimed": {"category": "model_checking", "text": CHECKS[i]["text"], "design_ref": CHECKS[i]["ref"]},
   "level_note": CHECKS[i]["note"], "technique": CHECKS[i].get("technique", TECH)} for i in ids],
 "not_applicable": [{"property_id": k, "reason": v} for k, v in sorted(NOT_YET.items())],
 "notes": "All 20 properties are claimed; DESIGN.md section 10 is the as-built record (what each check decides, interpretations, corrected false alarms, repaired defects in known_findings.json, which check detects which seeded change, clauses not covered)."
}
json.dump(m, open(os.path.join(ROOT, "MANIFEST.json"), "w"), indent=1)
print("checks:", ids)
