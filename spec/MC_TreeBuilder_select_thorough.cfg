SPECIFICATION Spec
CONSTANTS
  MaxToks = 4
  VocabIdx = {41, 42, 43, 44, 45, 46, 47, 48, 49, 9, 3, 11, 13, 4}
  CtxIdx = {1, 8}
  Scripting = TRUE
  DoExport = TRUE
INVARIANTS Structure Ark TemplateModes AtEof FragEof Export
CHECK_DEADLOCK FALSE
