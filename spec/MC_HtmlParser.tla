---------------------------- MODULE MC_HtmlParser ----------------------------
(***************************************************************************)
(* Model checking of the composed L0 parser (HtmlParser): every input made *)
(* of at most MaxPieces pieces of a small markup alphabet is parsed as a   *)
(* document; the final tree construction state satisfies the structural    *)
(* invariants, the document has the canonical skeleton (C06), and every    *)
(* explored input is exported to be parsed by the real parser (judged by   *)
(* Trace_Tree on its tokens and by Trace_Parse end to end).                *)
(***************************************************************************)
EXTENDS HtmlParser, TreeCanon, TLC, Json

CONSTANTS MaxPieces, PieceSet, DoExport

S(x) == x   \* pieces are code-point sequences
P_lt_a == <<60, 97, 62>>                 \* <a>
P_lt_b == <<60, 98, 62>>                 \* <b>
P_lt_p == <<60, 112, 62>>                \* <p>
P_end_a == <<60, 47, 97, 62>>            \* </a>
P_end_p == <<60, 47, 112, 62>>           \* </p>
P_table == <<60, 116, 97, 98, 108, 101, 62>>
P_td == <<60, 116, 100, 62>>
P_x == <<120>>
P_sp == <<32>>
P_svg == <<60, 115, 118, 103, 62>>
P_cdata == <<60, 33, 91, 67, 68, 65, 84, 65, 91, 120, 93, 93, 62>>          \* <![CDATA[x]]>
P_title == <<60, 116, 105, 116, 108, 101, 62>>
P_end_title == <<60, 47, 116, 105, 116, 108, 101, 62>>
P_script == <<60, 115, 99, 114, 105, 112, 116, 62>>
P_end_script == <<60, 47, 115, 99, 114, 105, 112, 116, 62>>
P_comment == <<60, 33, 45, 45, 99, 45, 45, 62>>                              \* <!--c-->
P_doctype == <<60, 33, 68, 79, 67, 84, 89, 80, 69, 32, 104, 116, 109, 108, 62>>
P_amp == <<38, 97, 109, 112, 59>>                                            \* &amp;
P_crlf == <<13, 10>>
P_pre == <<60, 112, 114, 101, 62>>
P_textarea == <<60, 116, 101, 120, 116, 97, 114, 101, 97, 62>>
P_plaintext == <<60, 112, 108, 97, 105, 110, 116, 101, 120, 116, 62>>
P_desc == <<60, 100, 101, 115, 99, 62>>
P_math == <<60, 109, 97, 116, 104, 62>>
P_lt == <<60>>
P_frameset == <<60, 102, 114, 97, 109, 101, 115, 101, 116, 62>>
P_template == <<60, 116, 101, 109, 112, 108, 97, 116, 101, 62>>
P_end_template == <<60, 47, 116, 101, 109, 112, 108, 97, 116, 101, 62>>

MC_PiecesA == {P_lt_a, P_lt_b, P_lt_p, P_end_a, P_end_p, P_table, P_td, P_x, P_sp, P_svg, P_cdata, P_title, P_end_title}
MC_PiecesB == {P_script, P_end_script, P_comment, P_doctype, P_amp, P_crlf, P_pre, P_textarea, P_plaintext, P_x, P_lt, P_title, P_lt_p}
MC_PiecesC == {P_svg, P_desc, P_math, P_cdata, P_lt_b, P_end_p, P_lt_p, P_x, P_frameset, P_template, P_end_template, P_td, P_table}

VARIABLES pieces
Init == pieces = <<>>
Next == /\ Len(pieces) < MaxPieces
        /\ \E p \in PieceSet : pieces' = Append(pieces, p)
Spec == Init /\ [][Next]_pieces

Text == Flatten(pieces)
Final == ParseDocument(Text, TRUE, FALSE, "no", TRUE)

Wellformed == LET t == Final IN
    /\ t.stopped
    /\ StructureOk(t) /\ ArkOk(t)
    /\ DocEofOk(t)
Export == DoExport => PrintT(<<"REPLAY", ToJson([text |-> Text])>>)
=============================================================================
