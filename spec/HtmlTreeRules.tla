---------------------------- MODULE HtmlTreeRules ----------------------------
(***************************************************************************)
(* L0, continued: the insertion modes (13.2.6.4.1 - .22), the rules for    *)
(* parsing tokens in foreign content (13.2.6.5) and the tree construction  *)
(* dispatcher (13.2.6).  Character tokens arrive as runs that are either   *)
(* all ASCII whitespace (ws = TRUE) or contain none; U+0000 arrives as its *)
(* own token.  Parse errors are not modelled.                              *)
(***************************************************************************)
EXTENDS HtmlTreeBuilder

HeadStartTags == {N_base, N_basefont, N_bgsound, N_link, N_meta, N_noframes, N_script, N_style, N_template, N_title}
TableSectionTags == {N_tbody, N_tfoot, N_thead}
FormatTagsNoA == FormattingTags \ {N_a, N_nobr}
TableScopeTags == {N_caption, N_col, N_colgroup, N_tbody, N_td, N_tfoot, N_th, N_thead, N_tr}
WsTok(tok) == tok.k = "chars" /\ tok.ws
SetMode(t, m) == [t EXCEPT !.mode = m]

TypeIsHidden(tok) == LET v == TokAttr(tok, N_type) IN v # <<>> /\ LowerSeq(v[1]) = N_hidden

AppendCommentTo(t, s, parent) == InsertCommentAt(t, s, [parent |-> parent, before |-> -1])

AddMissingAttrs(t, id, tok) == [t EXCEPT !.nodes = AddAttrsIfMissing(@, id, HtmlAttrs(tok))]
RemoveFromStack(t, id) == LET i == StackIndexOf(t, id) IN IF i = 0 THEN t ELSE [t EXCEPT !.open = RemoveAt(@, i)]

MathmlTextIP(t, id) == Nd(t, id).ns = "mathml" /\ Nd(t, id).local \in {N_mi, N_mo, N_mn, N_ms, N_mtext}
S_texthtml == <<116, 101, 120, 116, 47, 104, 116, 109, 108>>
S_appxhtml == <<97, 112, 112, 108, 105, 99, 97, 116, 105, 111, 110, 47, 120, 104, 116, 109, 108, 43, 120, 109, 108>>
HtmlIP(t, id) ==
    LET n == Nd(t, id) IN
    \/ (n.ns = "svg" /\ n.local \in {N_foreignObject, N_desc, N_title})
    \/ (n.ns = "mathml" /\ n.local = N_annotation_xml /\
        \E i \in DOMAIN n.attrs : n.attrs[i].ns = "" /\ n.attrs[i].local = N_encoding /\ LowerSeq(n.attrs[i].v) \in {S_texthtml, S_appxhtml})

SvgTagName(name) == LET r == TableLookup2(SvgTagAdjust, name) IN IF r = <<>> THEN name ELSE r[1][2]

\* li / dd / dt start tags: close an open item of the same family
RECURSIVE CloseItemFrom(_, _, _)
CloseItemFrom(t, i, names) ==
    IF i = 0 THEN t
    ELSE LET id == t.open[i] IN
         IF IsHtmlIn(t, id, names) THEN PopUntil(GenImplied(t, {Nd(t, id).local}), Nd(t, id).local)
         ELSE IF IsSpecial(t, id) /\ ~IsHtmlIn(t, id, {<<97, 100, 100, 114, 101, 115, 115>>, N_div, N_p}) THEN t
         ELSE CloseItemFrom(t, i - 1, names)

AfeHasAfterMarker(t, name) ==
    LET lm == LastMarker(t.afe) IN \E i \in (lm + 1)..Len(t.afe) : ~t.afe[i].m /\ IsHtmlNode(t, t.afe[i].id, name)
AfeEntryAfterMarker(t, name) ==
    LET lm == LastMarker(t.afe)
        c == {i \in (lm + 1)..Len(t.afe) : ~t.afe[i].m /\ IsHtmlNode(t, t.afe[i].id, name)} IN
    CHOOSE i \in c : \A j \in c : j <= i

CloseCell(t) == SetMode(ClearAfeToMarker(PopUntilIn(GenImplied(t, {}), {N_td, N_th})), "InRow")

RECURSIVE Proc(_, _)
RECURSIVE ProcMode(_, _, _)
RECURSIVE ForeignEndFrom(_, _, _)

\* reprocess in another mode
Rep(t, tok, m) == Proc(SetMode(t, m), tok)
InBodyRules(t, tok) == ProcMode(t, tok, "InBody")
InHeadRules(t, tok) == ProcMode(t, tok, "InHead")
InTableRules(t, tok) == ProcMode(t, tok, "InTable")

\* a character run through the "anything else" branch of "in table": foster parented in-body handling
FosterChars(t, s, ws) ==
    LET t1 == [t EXCEPT !.foster = TRUE]
        t2 == InBodyRules(t1, [k |-> "chars", s |-> s, ws |-> ws]) IN
    [t2 EXCEPT !.foster = FALSE]

\* flush the pending table character tokens
FlushPtt(t) ==
    LET RECURSIVE AnyNonWs(_)
        AnyNonWs(i) == IF i > Len(t.ptt) THEN FALSE ELSE IF ~t.ptt[i].ws THEN TRUE ELSE AnyNonWs(i + 1)
        RECURSIVE Each(_, _, _)
        Each(tt, i, foster) == IF i > Len(t.ptt) THEN tt
                               ELSE Each(IF foster THEN FosterChars(tt, t.ptt[i].s, t.ptt[i].ws) ELSE InsertChars(tt, t.ptt[i].s), i + 1, foster) IN
    [Each(t, 1, AnyNonWs(1)) EXCEPT !.ptt = <<>>]

ProcMode(t, tok, mode) ==
  CASE mode = "Initial" ->
        IF WsTok(tok) THEN t
        ELSE IF tok.k = "comment" THEN AppendCommentTo(t, tok.s, 0)
        ELSE IF tok.k = "doctype" THEN
            LET o(x) == IF x = <<>> THEN <<>> ELSE x[1]
                t1 == [t EXCEPT !.nodes = AppendDoctype(@, o(tok.name), o(tok.pub), o(tok.sys))] IN
            SetMode([t1 EXCEPT !.quirks = QuirksOf(tok, t.srcdoc), !.qset = TRUE], "BeforeHtml")
        ELSE Rep([t EXCEPT !.quirks = IF t.srcdoc THEN @ ELSE "full", !.qset = IF t.srcdoc THEN @ ELSE TRUE], tok, "BeforeHtml")
    [] mode = "BeforeHtml" ->
        IF tok.k = "doctype" \/ WsTok(tok) THEN t
        ELSE IF tok.k = "comment" THEN AppendCommentTo(t, tok.s, 0)
        ELSE IF StartIn(tok, {N_html}) THEN
            LET c == CreateFor(t, tok, "html", N_html) IN
            SetMode([c.t EXCEPT !.nodes = AppendNodeTo(@, 0, c.id), !.open = <<c.id>>], "BeforeHead")
        ELSE IF tok.k = "end" /\ tok.name \notin {N_head, N_body, N_html, N_br} THEN t
        ELSE LET c == CreateFor(t, FakeTag(N_html), "html", N_html) IN
             Rep([c.t EXCEPT !.nodes = AppendNodeTo(@, 0, c.id), !.open = <<c.id>>], tok, "BeforeHead")
    [] mode = "BeforeHead" ->
        IF WsTok(tok) \/ tok.k = "doctype" THEN t
        ELSE IF tok.k = "comment" THEN InsertComment(t, tok.s)
        ELSE IF StartIn(tok, {N_html}) THEN InBodyRules(t, tok)
        ELSE IF StartIn(tok, {N_head}) THEN LET t1 == InsertEl(t, tok) IN SetMode([t1 EXCEPT !.head = Cur(t1)], "InHead")
        ELSE IF tok.k = "end" /\ tok.name \notin {N_head, N_body, N_html, N_br} THEN t
        ELSE LET t1 == InsertEl(t, FakeTag(N_head)) IN Rep([t1 EXCEPT !.head = Cur(t1)], tok, "InHead")
    [] mode = "InHead" ->
        IF WsTok(tok) THEN InsertChars(t, tok.s)
        ELSE IF tok.k = "comment" THEN InsertComment(t, tok.s)
        ELSE IF tok.k = "doctype" THEN t
        ELSE IF StartIn(tok, {N_html}) THEN InBodyRules(t, tok)
        ELSE IF StartIn(tok, {N_base, N_basefont, N_bgsound, N_link, N_meta}) THEN InsertAndPop(t, tok)
        ELSE IF StartIn(tok, {N_title}) THEN ParseRaw(t, tok)
        ELSE IF StartIn(tok, {N_noframes, N_style}) \/ (StartIn(tok, {N_noscript}) /\ t.scripting) THEN ParseRaw(t, tok)
        ELSE IF StartIn(tok, {N_noscript}) THEN SetMode(InsertEl(t, tok), "InHeadNoscript")
        ELSE IF StartIn(tok, {N_script}) THEN ParseRaw(t, tok)
        ELSE IF EndIn(tok, {N_head}) THEN SetMode(Pop(t), "AfterHead")
        ELSE IF StartIn(tok, {N_template}) THEN
            LET t1 == InsertEl(t, tok) IN
            [t1 EXCEPT !.afe = Append(@, Marker), !.fok = FALSE, !.mode = "InTemplate", !.tmodes = Append(@, "InTemplate")]
        ELSE IF EndIn(tok, {N_template}) THEN
            IF ~StackHas(t, N_template) THEN t
            ELSE LET t1 == ClearAfeToMarker(PopUntil(GenImpliedThorough(t), N_template)) IN
                 ResetMode([t1 EXCEPT !.tmodes = SubSeq(@, 1, Len(@) - 1)])
        ELSE IF StartIn(tok, {N_head}) \/ (tok.k = "end" /\ tok.name \notin {N_body, N_html, N_br}) THEN t
        ELSE Rep(Pop(t), tok, "AfterHead")
    [] mode = "InHeadNoscript" ->
        IF tok.k = "doctype" THEN t
        ELSE IF StartIn(tok, {N_html}) THEN InBodyRules(t, tok)
        ELSE IF EndIn(tok, {N_noscript}) THEN SetMode(Pop(t), "InHead")
        ELSE IF WsTok(tok) \/ tok.k = "comment" \/ StartIn(tok, {N_basefont, N_bgsound, N_link, N_meta, N_noframes, N_style}) THEN InHeadRules(t, tok)
        ELSE IF StartIn(tok, {N_head, N_noscript}) \/ (tok.k = "end" /\ tok.name # N_br) THEN t
        ELSE Rep(Pop(t), tok, "InHead")
    [] mode = "AfterHead" ->
        IF WsTok(tok) THEN InsertChars(t, tok.s)
        ELSE IF tok.k = "comment" THEN InsertComment(t, tok.s)
        ELSE IF tok.k = "doctype" THEN t
        ELSE IF StartIn(tok, {N_html}) THEN InBodyRules(t, tok)
        ELSE IF StartIn(tok, {N_body}) THEN SetMode([InsertEl(t, tok) EXCEPT !.fok = FALSE], "InBody")
        ELSE IF StartIn(tok, {N_frameset}) THEN SetMode(InsertEl(t, tok), "InFrameset")
        ELSE IF StartIn(tok, HeadStartTags) THEN
            LET t1 == [t EXCEPT !.open = Append(@, t.head)]
                t2 == InHeadRules(t1, tok) IN
            RemoveFromStack(t2, t.head)
        ELSE IF EndIn(tok, {N_template}) THEN InHeadRules(t, tok)
        ELSE IF StartIn(tok, {N_head}) \/ (tok.k = "end" /\ tok.name \notin {N_body, N_html, N_br}) THEN t
        ELSE Rep(InsertEl(t, FakeTag(N_body)), tok, "InBody")
    [] mode = "InBody" ->
        IF tok.k = "nul" THEN t
        ELSE IF WsTok(tok) THEN InsertChars(Reconstruct(t), tok.s)
        ELSE IF tok.k = "chars" THEN [InsertChars(Reconstruct(t), tok.s) EXCEPT !.fok = FALSE]
        ELSE IF tok.k = "comment" THEN InsertComment(t, tok.s)
        ELSE IF tok.k = "doctype" THEN t
        ELSE IF tok.k = "eof" THEN IF t.tmodes # <<>> THEN ProcMode(t, tok, "InTemplate") ELSE [t EXCEPT !.stopped = TRUE]
        ELSE IF tok.k = "start" THEN
          LET nm == tok.name IN
          IF nm = N_html THEN IF StackHas(t, N_template) THEN t ELSE AddMissingAttrs(t, t.open[1], tok)
          ELSE IF nm \in HeadStartTags THEN InHeadRules(t, tok)
          ELSE IF nm = N_body THEN
              IF Len(t.open) < 2 \/ ~IsHtmlNode(t, t.open[2], N_body) \/ StackHas(t, N_template) THEN t
              ELSE [AddMissingAttrs(t, t.open[2], tok) EXCEPT !.fok = FALSE]
          ELSE IF nm = N_frameset THEN
              IF Len(t.open) < 2 \/ ~IsHtmlNode(t, t.open[2], N_body) \/ ~t.fok THEN t
              ELSE LET t1 == [t EXCEPT !.nodes = Detach(@, t.open[2]), !.open = <<t.open[1]>>] IN
                   SetMode(InsertEl(t1, tok), "InFrameset")
          ELSE IF nm \in BlockStartTags THEN InsertEl(ClosePInButtonScope(t), tok)
          ELSE IF nm \in HeadingTags THEN
              LET t1 == ClosePInButtonScope(t)
                  t2 == IF CurIn(t1, HeadingTags) THEN Pop(t1) ELSE t1 IN InsertEl(t2, tok)
          ELSE IF nm \in {N_pre, N_listing} THEN [InsertEl(ClosePInButtonScope(t), tok) EXCEPT !.ignoreLf = TRUE, !.fok = FALSE]
          ELSE IF nm = N_form THEN
              IF t.form # -1 /\ ~StackHas(t, N_template) THEN t
              ELSE LET t1 == InsertEl(ClosePInButtonScope(t), tok) IN
                   IF StackHas(t, N_template) THEN t1 ELSE [t1 EXCEPT !.form = Cur(t1)]
          ELSE IF nm = N_li THEN InsertEl(ClosePInButtonScope(CloseItemFrom([t EXCEPT !.fok = FALSE], Len(t.open), {N_li})), tok)
          ELSE IF nm \in {N_dd, N_dt} THEN InsertEl(ClosePInButtonScope(CloseItemFrom([t EXCEPT !.fok = FALSE], Len(t.open), {N_dd, N_dt})), tok)
          ELSE IF nm = N_plaintext THEN [InsertEl(ClosePInButtonScope(t), tok) EXCEPT !.ts = "plaintext"]
          ELSE IF nm = N_button THEN
              LET t1 == IF InScope(t, N_button) THEN PopUntil(GenImplied(t, {}), N_button) ELSE t IN
              [InsertEl(Reconstruct(t1), tok) EXCEPT !.fok = FALSE]
          ELSE IF nm = N_a THEN
              LET t1 == IF AfeHasAfterMarker(t, N_a) THEN
                            LET old == t.afe[AfeEntryAfterMarker(t, N_a)].id
                                a1 == Aaa(t, N_a)
                                ai == AfeIndexOfNode(a1, old)
                                a2 == IF ai # 0 THEN [a1 EXCEPT !.afe = RemoveAt(@, ai)] ELSE a1 IN
                            RemoveFromStack(a2, old)
                        ELSE t
                  t2 == InsertEl(Reconstruct(t1), tok) IN
              PushAfe(t2, Cur(t2), tok)
          ELSE IF nm \in FormatTagsNoA THEN LET t2 == InsertEl(Reconstruct(t), tok) IN PushAfe(t2, Cur(t2), tok)
          ELSE IF nm = N_nobr THEN
              LET t1 == Reconstruct(t)
                  t2 == IF InScope(t1, N_nobr) THEN Reconstruct(Aaa(t1, N_nobr)) ELSE t1
                  t3 == InsertEl(t2, tok) IN
              PushAfe(t3, Cur(t3), tok)
          ELSE IF nm \in {N_applet, N_marquee, N_object} THEN
              [InsertEl(Reconstruct(t), tok) EXCEPT !.afe = Append(@, Marker), !.fok = FALSE]
          ELSE IF nm = N_table THEN
              LET t1 == IF t.quirks # "full" THEN ClosePInButtonScope(t) ELSE t IN
              [InsertEl(t1, tok) EXCEPT !.fok = FALSE, !.mode = "InTable"]
          ELSE IF nm \in {N_area, N_br, N_embed, N_img, N_keygen, N_wbr} THEN [InsertAndPop(Reconstruct(t), tok) EXCEPT !.fok = FALSE]
          ELSE IF nm = N_input THEN
              \* (2025) an input closes an open select
              LET t0 == IF InScope(t, N_select) THEN [PopUntil(t, N_select) EXCEPT !.low = TRUE] ELSE t
                  t1 == InsertAndPop(Reconstruct(t0), tok) IN
              IF TypeIsHidden(tok) THEN t1 ELSE [t1 EXCEPT !.fok = FALSE]
          ELSE IF nm \in {N_param, N_source, N_track} THEN InsertAndPop(t, tok)
          ELSE IF nm = N_hr THEN
              LET t1 == ClosePInButtonScope(t)
                  t2 == IF InScope(t1, N_select) THEN [GenImplied(t1, {}) EXCEPT !.low = TRUE] ELSE t1 IN
              [InsertAndPop(t2, tok) EXCEPT !.fok = FALSE]
          ELSE IF nm = N_image THEN InBodyRules(t, [tok EXCEPT !.name = N_img])
          ELSE IF nm = N_textarea THEN
              [InsertEl(t, tok) EXCEPT !.ignoreLf = TRUE, !.orig = t.mode, !.fok = FALSE, !.mode = "Text", !.ts = "rcdata"]
          ELSE IF nm = N_xmp THEN ParseRaw([Reconstruct(ClosePInButtonScope(t)) EXCEPT !.fok = FALSE], tok)
          ELSE IF nm = N_iframe THEN ParseRaw([t EXCEPT !.fok = FALSE], tok)
          ELSE IF nm = N_noembed \/ (nm = N_noscript /\ t.scripting) THEN ParseRaw(t, tok)
          ELSE IF nm = N_select THEN
              \* (2025) select is parsed in the "in body" mode
              IF t.frag /\ IsHtmlNode(t, t.ctx, N_select) THEN [t EXCEPT !.low = TRUE]
              ELSE IF InScope(t, N_select) THEN [PopUntil(t, N_select) EXCEPT !.low = TRUE]
              ELSE [InsertEl(Reconstruct(t), tok) EXCEPT !.fok = FALSE, !.low = TRUE]
          ELSE IF nm = N_option THEN
              LET t1 == IF InScope(t, N_select) THEN GenImplied(t, {N_optgroup})
                        ELSE IF CurIs(t, N_option) THEN Pop(t) ELSE t IN
              [InsertEl(Reconstruct(t1), tok) EXCEPT !.low = TRUE]
          ELSE IF nm = N_optgroup THEN
              LET t1 == IF InScope(t, N_select) THEN GenImplied(t, {})
                        ELSE IF CurIs(t, N_option) THEN Pop(t) ELSE t IN
              [InsertEl(Reconstruct(t1), tok) EXCEPT !.low = TRUE]
          ELSE IF nm \in {N_rb, N_rtc} THEN InsertEl(IF InScope(t, N_ruby) THEN GenImplied(t, {}) ELSE t, tok)
          ELSE IF nm \in {N_rp, N_rt} THEN InsertEl(IF InScope(t, N_ruby) THEN GenImplied(t, {N_rtc}) ELSE t, tok)
          ELSE IF nm \in {N_math, N_svg} THEN
              LET ns == IF nm = N_math THEN "mathml" ELSE "svg"
                  t1 == InsertElNs(Reconstruct(t), tok, ns, nm) IN
              IF tok.sc THEN Pop(t1) ELSE t1
          ELSE IF nm \in {N_caption, N_col, N_colgroup, N_frame, N_head, N_tbody, N_td, N_tfoot, N_th, N_thead, N_tr} THEN t
          ELSE LET t1 == InsertEl(Reconstruct(t), tok) IN
               IF nm = N_selectedcontent THEN [t1 EXCEPT !.low = TRUE] ELSE t1
        ELSE \* end tags
          LET nm == tok.name IN
          IF nm = N_template THEN InHeadRules(t, tok)
          ELSE IF nm = N_body THEN IF ~InScope(t, N_body) THEN t ELSE SetMode(t, "AfterBody")
          ELSE IF nm = N_html THEN IF ~InScope(t, N_body) THEN t ELSE Rep(t, tok, "AfterBody")
          ELSE IF nm \in BlockEndTags THEN
              IF ~InScope(t, nm) THEN t
              ELSE LET t1 == PopUntil(GenImplied(t, {}), nm) IN IF nm = N_select THEN [t1 EXCEPT !.low = TRUE] ELSE t1
          ELSE IF nm = N_form THEN
              IF ~StackHas(t, N_template) THEN
                  LET node == t.form
                      t1 == [t EXCEPT !.form = -1] IN
                  IF node = -1 \/ ~NodeScopeFrom(t1, Len(t1.open), node) THEN t1
                  ELSE RemoveFromStack(GenImplied(t1, {}), node)
              ELSE IF ~InScope(t, N_form) THEN t ELSE PopUntil(GenImplied(t, {}), N_form)
          ELSE IF nm = N_p THEN CloseP(IF ~InButtonScope(t, N_p) THEN InsertEl(t, FakeTag(N_p)) ELSE t)
          ELSE IF nm = N_li THEN IF ~InListScope(t, N_li) THEN t ELSE PopUntil(GenImplied(t, {N_li}), N_li)
          ELSE IF nm \in {N_dd, N_dt} THEN IF ~InScope(t, nm) THEN t ELSE PopUntil(GenImplied(t, {nm}), nm)
          ELSE IF nm \in HeadingTags THEN IF ~InScopeAny(t, HeadingTags) THEN t ELSE PopUntilIn(GenImplied(t, {}), HeadingTags)
          ELSE IF nm \in FormattingTags THEN Aaa(t, nm)
          ELSE IF nm \in {N_applet, N_marquee, N_object} THEN
              IF ~InScope(t, nm) THEN t ELSE ClearAfeToMarker(PopUntil(GenImplied(t, {}), nm))
          ELSE IF nm = N_br THEN InBodyRules(t, FakeTag(N_br))
          ELSE IF nm = N_option THEN
              \* (2025) the option that this end tag takes off the stack is cloned into its select's selectedcontent
              LET opts == {i \in DOMAIN t.open : IsHtmlNode(t, t.open[i], N_option)}
                  t1 == [AnyOtherEnd(t, nm) EXCEPT !.low = TRUE] IN
              IF opts = {} THEN t1
              ELSE LET opt == t.open[CHOOSE i \in opts : \A j \in opts : i <= j] IN
                   IF InStack(t1, opt) THEN t1 ELSE [t1 EXCEPT !.nodes = MaybeCloneOption(@, opt)]
          ELSE AnyOtherEnd(t, nm)
    [] mode = "Text" ->
        IF tok.k = "chars" \/ tok.k = "nul" THEN InsertChars(t, IF tok.k = "nul" THEN <<NUL>> ELSE tok.s)
        ELSE IF tok.k = "eof" THEN Rep(Pop(t), tok, t.orig)
        ELSE SetMode(Pop(t), t.orig)
    [] mode = "InTable" ->
        IF (tok.k = "chars" \/ tok.k = "nul") /\ CurIn(t, {N_table, N_tbody, N_template, N_tfoot, N_thead, N_tr}) THEN
            Rep([t EXCEPT !.ptt = <<>>, !.orig = t.mode], tok, "InTableText")
        ELSE IF tok.k = "comment" THEN InsertComment(t, tok.s)
        ELSE IF tok.k = "doctype" THEN t
        ELSE IF StartIn(tok, {N_caption}) THEN
            SetMode([InsertEl(ClearBackTo(t, {N_table, N_template, N_html}), tok) EXCEPT !.afe = Append(@, Marker)], "InCaption")
        ELSE IF StartIn(tok, {N_colgroup}) THEN SetMode(InsertEl(ClearBackTo(t, {N_table, N_template, N_html}), tok), "InColumnGroup")
        ELSE IF StartIn(tok, {N_col}) THEN Rep(InsertEl(ClearBackTo(t, {N_table, N_template, N_html}), FakeTag(N_colgroup)), tok, "InColumnGroup")
        ELSE IF StartIn(tok, TableSectionTags) THEN SetMode(InsertEl(ClearBackTo(t, {N_table, N_template, N_html}), tok), "InTableBody")
        ELSE IF StartIn(tok, {N_td, N_th, N_tr}) THEN Rep(InsertEl(ClearBackTo(t, {N_table, N_template, N_html}), FakeTag(N_tbody)), tok, "InTableBody")
        ELSE IF StartIn(tok, {N_table}) THEN IF ~InTableScope(t, N_table) THEN t ELSE Proc(ResetMode(PopUntil(t, N_table)), tok)
        ELSE IF EndIn(tok, {N_table}) THEN IF ~InTableScope(t, N_table) THEN t ELSE ResetMode(PopUntil(t, N_table))
        ELSE IF EndIn(tok, {N_body, N_caption, N_col, N_colgroup, N_html, N_tbody, N_td, N_tfoot, N_th, N_thead, N_tr}) THEN t
        ELSE IF StartIn(tok, {N_style, N_script, N_template}) \/ EndIn(tok, {N_template}) THEN InHeadRules(t, tok)
        ELSE IF StartIn(tok, {N_input}) /\ TypeIsHidden(tok) THEN InsertAndPop(t, tok)
        ELSE IF StartIn(tok, {N_form}) THEN
            IF StackHas(t, N_template) \/ t.form # -1 THEN t
            ELSE LET t1 == InsertEl(t, tok) IN Pop([t1 EXCEPT !.form = Cur(t1)])
        ELSE IF tok.k = "eof" THEN InBodyRules(t, tok)
        ELSE LET t2 == InBodyRules([t EXCEPT !.foster = TRUE], tok) IN [t2 EXCEPT !.foster = FALSE]
    [] mode = "InTableText" ->
        IF tok.k = "nul" THEN t
        ELSE IF tok.k = "chars" THEN [t EXCEPT !.ptt = Append(@, tok)]
        ELSE Rep(FlushPtt(t), tok, t.orig)
    [] mode = "InCaption" ->
        IF EndIn(tok, {N_caption}) \/ StartIn(tok, TableScopeTags) \/ EndIn(tok, {N_table}) THEN
            IF ~InTableScope(t, N_caption) THEN t
            ELSE LET t1 == SetMode(ClearAfeToMarker(PopUntil(GenImplied(t, {}), N_caption)), "InTable") IN
                 IF EndIn(tok, {N_caption}) THEN t1 ELSE Proc(t1, tok)
        ELSE IF EndIn(tok, {N_body, N_col, N_colgroup, N_html, N_tbody, N_td, N_tfoot, N_th, N_thead, N_tr}) THEN t
        ELSE InBodyRules(t, tok)
    [] mode = "InColumnGroup" ->
        IF WsTok(tok) THEN InsertChars(t, tok.s)
        ELSE IF tok.k = "comment" THEN InsertComment(t, tok.s)
        ELSE IF tok.k = "doctype" THEN t
        ELSE IF StartIn(tok, {N_html}) THEN InBodyRules(t, tok)
        ELSE IF StartIn(tok, {N_col}) THEN InsertAndPop(t, tok)
        ELSE IF EndIn(tok, {N_colgroup}) THEN IF ~CurIs(t, N_colgroup) THEN t ELSE SetMode(Pop(t), "InTable")
        ELSE IF EndIn(tok, {N_col}) THEN t
        ELSE IF StartIn(tok, {N_template}) \/ EndIn(tok, {N_template}) THEN InHeadRules(t, tok)
        ELSE IF tok.k = "eof" THEN InBodyRules(t, tok)
        ELSE IF ~CurIs(t, N_colgroup) THEN t ELSE Rep(Pop(t), tok, "InTable")
    [] mode = "InTableBody" ->
        LET ctxTags == {N_tbody, N_tfoot, N_thead, N_template, N_html} IN
        IF StartIn(tok, {N_tr}) THEN SetMode(InsertEl(ClearBackTo(t, ctxTags), tok), "InRow")
        ELSE IF StartIn(tok, {N_th, N_td}) THEN Rep(InsertEl(ClearBackTo(t, ctxTags), FakeTag(N_tr)), tok, "InRow")
        ELSE IF EndIn(tok, TableSectionTags) THEN
            IF ~InTableScope(t, tok.name) THEN t ELSE SetMode(Pop(ClearBackTo(t, ctxTags)), "InTable")
        ELSE IF StartIn(tok, {N_caption, N_col, N_colgroup, N_tbody, N_tfoot, N_thead}) \/ EndIn(tok, {N_table}) THEN
            IF ~InTableScopeAny(t, TableSectionTags) THEN t ELSE Rep(Pop(ClearBackTo(t, ctxTags)), tok, "InTable")
        ELSE IF EndIn(tok, {N_body, N_caption, N_col, N_colgroup, N_html, N_td, N_th, N_tr}) THEN t
        ELSE InTableRules(t, tok)
    [] mode = "InRow" ->
        LET ctxTags == {N_tr, N_template, N_html} IN
        IF StartIn(tok, {N_th, N_td}) THEN
            [InsertEl(ClearBackTo(t, ctxTags), tok) EXCEPT !.mode = "InCell", !.afe = Append(@, Marker)]
        ELSE IF EndIn(tok, {N_tr}) THEN IF ~InTableScope(t, N_tr) THEN t ELSE SetMode(Pop(ClearBackTo(t, ctxTags)), "InTableBody")
        ELSE IF StartIn(tok, {N_caption, N_col, N_colgroup, N_tbody, N_tfoot, N_thead, N_tr}) \/ EndIn(tok, {N_table}) THEN
            IF ~InTableScope(t, N_tr) THEN t ELSE Rep(Pop(ClearBackTo(t, ctxTags)), tok, "InTableBody")
        ELSE IF EndIn(tok, TableSectionTags) THEN
            IF ~InTableScope(t, tok.name) \/ ~InTableScope(t, N_tr) THEN t ELSE Rep(Pop(ClearBackTo(t, ctxTags)), tok, "InTableBody")
        ELSE IF EndIn(tok, {N_body, N_caption, N_col, N_colgroup, N_html, N_td, N_th}) THEN t
        ELSE InTableRules(t, tok)
    [] mode = "InCell" ->
        IF EndIn(tok, {N_td, N_th}) THEN
            IF ~InTableScope(t, tok.name) THEN t
            ELSE SetMode(ClearAfeToMarker(PopUntil(GenImplied(t, {}), tok.name)), "InRow")
        ELSE IF StartIn(tok, TableScopeTags) THEN
            IF ~InTableScopeAny(t, {N_td, N_th}) THEN t ELSE Proc(CloseCell(t), tok)
        ELSE IF EndIn(tok, {N_body, N_caption, N_col, N_colgroup, N_html}) THEN t
        ELSE IF EndIn(tok, {N_table, N_tbody, N_tfoot, N_thead, N_tr}) THEN
            IF ~InTableScope(t, tok.name) THEN t ELSE Proc(CloseCell(t), tok)
        ELSE InBodyRules(t, tok)
    [] mode = "InTemplate" ->
        IF tok.k \in {"chars", "nul", "comment", "doctype"} THEN InBodyRules(t, tok)
        ELSE IF StartIn(tok, HeadStartTags) \/ EndIn(tok, {N_template}) THEN InHeadRules(t, tok)
        ELSE IF tok.k = "start" THEN
            LET m == IF tok.name \in {N_caption, N_colgroup, N_tbody, N_tfoot, N_thead} THEN "InTable"
                     ELSE IF tok.name = N_col THEN "InColumnGroup"
                     ELSE IF tok.name = N_tr THEN "InTableBody"
                     ELSE IF tok.name \in {N_td, N_th} THEN "InRow"
                     ELSE "InBody" IN
            Rep([t EXCEPT !.tmodes = Append(SubSeq(@, 1, Len(@) - 1), m)], tok, m)
        ELSE IF tok.k = "end" THEN t
        ELSE \* EOF
            IF ~StackHas(t, N_template) THEN [t EXCEPT !.stopped = TRUE]
            ELSE LET t1 == ClearAfeToMarker(PopUntil(t, N_template)) IN
                 Proc(ResetMode([t1 EXCEPT !.tmodes = SubSeq(@, 1, Len(@) - 1)]), tok)
    [] mode = "AfterBody" ->
        IF WsTok(tok) THEN InBodyRules(t, tok)
        ELSE IF tok.k = "comment" THEN AppendCommentTo(t, tok.s, t.open[1])
        ELSE IF tok.k = "doctype" THEN t
        ELSE IF StartIn(tok, {N_html}) THEN InBodyRules(t, tok)
        ELSE IF EndIn(tok, {N_html}) THEN IF t.frag THEN t ELSE SetMode(t, "AfterAfterBody")
        ELSE IF tok.k = "eof" THEN [t EXCEPT !.stopped = TRUE]
        ELSE Rep(t, tok, "InBody")
    [] mode = "InFrameset" ->
        IF WsTok(tok) THEN InsertChars(t, tok.s)
        ELSE IF tok.k = "comment" THEN InsertComment(t, tok.s)
        ELSE IF tok.k = "doctype" THEN t
        ELSE IF StartIn(tok, {N_html}) THEN InBodyRules(t, tok)
        ELSE IF StartIn(tok, {N_frameset}) THEN InsertEl(t, tok)
        ELSE IF EndIn(tok, {N_frameset}) THEN
            IF Len(t.open) = 1 THEN t
            ELSE LET t1 == Pop(t) IN IF ~t.frag /\ ~CurIs(t1, N_frameset) THEN SetMode(t1, "AfterFrameset") ELSE t1
        ELSE IF StartIn(tok, {N_frame}) THEN InsertAndPop(t, tok)
        ELSE IF StartIn(tok, {N_noframes}) THEN InHeadRules(t, tok)
        ELSE IF tok.k = "eof" THEN [t EXCEPT !.stopped = TRUE]
        ELSE t
    [] mode = "AfterFrameset" ->
        IF WsTok(tok) THEN InsertChars(t, tok.s)
        ELSE IF tok.k = "comment" THEN InsertComment(t, tok.s)
        ELSE IF tok.k = "doctype" THEN t
        ELSE IF StartIn(tok, {N_html}) THEN InBodyRules(t, tok)
        ELSE IF EndIn(tok, {N_html}) THEN SetMode(t, "AfterAfterFrameset")
        ELSE IF StartIn(tok, {N_noframes}) THEN InHeadRules(t, tok)
        ELSE IF tok.k = "eof" THEN [t EXCEPT !.stopped = TRUE]
        ELSE t
    [] mode = "AfterAfterBody" ->
        IF tok.k = "comment" THEN AppendCommentTo(t, tok.s, 0)
        ELSE IF tok.k = "doctype" \/ WsTok(tok) \/ StartIn(tok, {N_html}) THEN InBodyRules(t, tok)
        ELSE IF tok.k = "eof" THEN [t EXCEPT !.stopped = TRUE]
        ELSE Rep(t, tok, "InBody")
    [] mode = "AfterAfterFrameset" ->
        IF tok.k = "comment" THEN AppendCommentTo(t, tok.s, 0)
        ELSE IF tok.k = "doctype" \/ WsTok(tok) \/ StartIn(tok, {N_html}) THEN InBodyRules(t, tok)
        ELSE IF tok.k = "eof" THEN [t EXCEPT !.stopped = TRUE]
        ELSE IF StartIn(tok, {N_noframes}) THEN InHeadRules(t, tok)
        ELSE t

\* ---- foreign content (13.2.6.5) ----------------------------------------------------
ForeignEndFrom(t, i, tok) ==
    \* "any other end tag" in foreign content; i = index of `node` in the stack
    IF i = 1 THEN t
    ELSE LET id == t.open[i] IN
         IF LowerSeq(Nd(t, id).local) = tok.name THEN PopUntilNode(t, id)
         ELSE IF Nd(t, t.open[i - 1]).ns = "html" THEN ProcMode(t, tok, t.mode)
         ELSE ForeignEndFrom(t, i - 1, tok)

RECURSIVE PopForeign(_)
PopForeign(t) == IF t.open = <<>> \/ Nd(t, Cur(t)).ns = "html" \/ MathmlTextIP(t, Cur(t)) \/ HtmlIP(t, Cur(t)) THEN t ELSE PopForeign(Pop(t))

ProcForeign(t, tok) ==
    IF tok.k = "nul" THEN InsertChars(t, <<REPL>>)
    ELSE IF WsTok(tok) THEN InsertChars(t, tok.s)
    ELSE IF tok.k = "chars" THEN [InsertChars(t, tok.s) EXCEPT !.fok = FALSE]
    ELSE IF tok.k = "comment" THEN InsertComment(t, tok.s)
    ELSE IF tok.k = "doctype" THEN t
    ELSE IF \/ StartIn(tok, BreakoutTags)
            \/ (StartIn(tok, {N_font}) /\ (TokAttr(tok, N_color) # <<>> \/ TokAttr(tok, N_face) # <<>> \/ TokAttr(tok, N_size) # <<>>))
            \/ EndIn(tok, {N_br, N_p}) THEN
        ProcMode(PopForeign(t), tok, t.mode)
    ELSE IF tok.k = "start" THEN
        LET ns == Nd(t, AdjCur(t)).ns
            local == IF ns = "svg" THEN SvgTagName(tok.name) ELSE tok.name
            t1 == InsertElNs(t, tok, ns, local) IN
        IF tok.sc THEN Pop(t1) ELSE t1
    ELSE \* end tag
        IF Len(t.open) = 0 THEN t ELSE ForeignEndFrom(t, Len(t.open), tok)

\* ---- the dispatcher -------------------------------------------------------------------
UseHtmlRules(t, tok) ==
    \/ t.open = <<>>
    \/ tok.k = "eof"
    \/ LET acn == AdjCur(t) IN
       \/ Nd(t, acn).ns = "html"
       \/ (MathmlTextIP(t, acn) /\ ((tok.k = "start" /\ tok.name \notin {N_mglyph, N_malignmark}) \/ tok.k \in {"chars", "nul"}))
       \/ (Nd(t, acn).ns = "mathml" /\ Nd(t, acn).local = N_annotation_xml /\ StartIn(tok, {N_svg}))
       \/ (HtmlIP(t, acn) /\ tok.k \in {"start", "chars", "nul"})

Proc(t, tok) == IF UseHtmlRules(t, tok) THEN ProcMode(t, tok, t.mode) ELSE ProcForeign(t, tok)

\* ---- a whole token stream ------------------------------------------------------------------
\* split a character token into runs of whitespace / non-whitespace
RECURSIVE RunsFrom(_, _, _)
RunsFrom(s, i, acc) ==
    IF i > Len(s) THEN acc
    ELSE LET ws == IsWsCr(s[i])
             RECURSIVE EndOfRun(_)
             EndOfRun(j) == IF j <= Len(s) /\ IsWsCr(s[j]) = ws THEN EndOfRun(j + 1) ELSE j
             e == EndOfRun(i) IN
         RunsFrom(s, e, Append(acc, [k |-> "chars", s |-> SubSeq(s, i, e - 1), ws |-> ws]))

\* one token of the tokenizer, with the "ignore a following LF" rule of pre / listing / textarea
ProcToken(t0, tok) ==
    IF tok.k = "err" \/ (tok.k = "chars" /\ tok.s = <<>>) THEN [t0 EXCEPT !.ts = ""]   \* not tokens of the standard
    ELSE LET ign == t0.ignoreLf
             t == [t0 EXCEPT !.ignoreLf = FALSE, !.ts = ""] IN
    IF tok.k = "chars" THEN
        LET s1 == IF ign /\ tok.s # <<>> /\ tok.s[1] = LF THEN Tail(tok.s) ELSE tok.s
            runs == RunsFrom(s1, 1, <<>>)
            RECURSIVE Each(_, _)
            Each(tt, i) == IF i > Len(runs) THEN tt ELSE Each(Proc(tt, runs[i]), i + 1) IN
        Each(t, 1)
    ELSE Proc(t, tok)

RECURSIVE ProcAll(_, _, _)
ProcAll(t, toks, i) == IF i > Len(toks) THEN t ELSE ProcAll(ProcToken(t, toks[i]), toks, i + 1)

\* fragment set-up (13.4): context element `ctx` = [ns, local, attrs]
FragmentInit(scripting, iquirks, ctx) ==
    LET t0 == TbInit(scripting, FALSE, iquirks)
        cel == MkNode("el", ctx.ns, ctx.local, ctx.attrs, <<>>, <<>>)
        isT == ctx.ns = "html" /\ ctx.local = N_template
        n1 == Append(t0.nodes, cel)                         \* node 1: the context element (not in the tree)
        root == MkNode("el", "html", N_html, <<>>, <<>>, <<>>)
        n2 == AppendNodeTo(Append(n1, root), 0, 2)          \* node 2: the root html element, child of the document
        t1 == [t0 EXCEPT !.nodes = n2, !.open = <<2>>, !.ctx = 1, !.frag = TRUE,
                         !.tmodes = IF isT THEN <<"InTemplate">> ELSE <<>>] IN
    ResetMode(t1)
=============================================================================
