SPECIFICATION Spec
CONSTANTS
  MaxMoves = 3
  Scripting = TRUE
  DoExport = TRUE
  Strs <- MC_StrsQuick
INVARIANTS RoundTrip Export
CHECK_DEADLOCK FALSE
