"""C16 - XML namespaces resolve by lexical scope and lose no attribute."""
import os
from . import core
from .core import Run, WORK

RULE = ("MC_XmlNs: the tree builder's namespace-stack discipline (push per start tag, pop per popped element, error recovery, "
        "short tags, end phase) refines lexical-scope resolution (XmlNamespaces) for all tag sequences up to the bound over a "
        "vocabulary of prefixed/unprefixed names, (un)declarations, shadowing and attribute orders; every explored sequence "
        "is rendered to XML and parsed by the real xml5ever; random structured documents (reserved prefixes, invalid "
        "declarations, unbound prefixes, mismatched end tags) are added.  TLC judges every created element against the source "
        "tags: namespace of its name, and its attributes = the tag's ordinary attributes with resolved namespaces, in order, "
        "none lost unless an earlier one has the same expanded name.")
SPEC, CFG = "Trace_XmlNs.tla", "Trace_XmlNs.cfg"


def classify(f, objs):
    return False


def run(tier, seed, replay=None):
    r = Run("C16", tier, seed)
    core.build_harness()
    if replay:
        meta, lines = core.load_replay(replay)
        src = os.path.join(WORK, "traces", "C16-replay-in.ndjson")
        with open(src, "w") as f:
            f.write("\n".join(lines) + "\n")
        r.gen_validate("replay", ["xml", "--replay"], SPEC, CFG, 1, classify, core.count_lines, stdin_files=[src])
        return r.finish(RULE, write=False)
    q = tier == "quick"
    N = core.NCPU
    cases = os.path.join(WORK, "traces", "C16-mc-cases.ndjson")
    res = core.tlc_mc("C16-mc", "MC_XmlNs.tla", "MC_XmlNs.cfg" if q else "MC_XmlNs_thorough.cfg", replay_out=cases, timeout=5000, xmx="24g")
    r.add_mc("MC_XmlNs", res)
    if res["ok"]:
        parts, n = core.split_file(cases, N if q else N * 4)
        r.gen_validate("mc-sequences", ["xml", "--replay"], SPEC, CFG, len(parts), classify, core.count_lines, stdin_files=parts, timeout=5000)
        r.extra["mc_sequences_replayed"] = n
    r.gen_validate("random-structures", ["xml", "--n", 2500 if q else 40000], SPEC, CFG, N, classify, core.count_lines, timeout=5000)
    r.assumptions = ["xmlns / xmlns:p attributes are namespace declarations, not ordinary attributes (Infoset); that xml5ever does not "
                     "materialise them on elements is an interpretation, not judged",
                     "two declarations of the same prefix on one tag (not well-formed XML) are not generated: which one stands is unspecified",
                     "ancestors are taken from the tree the builder actually built (its error recovery decides the shape)"]
    return r.finish(RULE)
