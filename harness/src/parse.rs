//! HTML parser driver with a monitoring TreeSink wrapped around RcDom and a token recorder
//! between tokenizer and tree builder (C02 C05 C06 C18 C19 C20, tree clauses of C03 C08 C09 C10).
//! Everything the tree builder asks of the sink is logged as an event with integer node ids
//! (creation order); the sink forwards to RcDom and answers from it.  No verdicts here.
use crate::tok::{parse_state, tag_json};
use crate::util::*;
use html5ever::tendril::StrTendril;
use html5ever::tokenizer::{BufferQueue, Token, TokenSink, TokenSinkResult, Tokenizer, TokenizerOpts};
use html5ever::tree_builder::{
    ElementFlags, NodeOrText, QuirksMode, Tracer, TreeBuilder, TreeBuilderOpts, TreeSink,
};
use html5ever::{Attribute, ExpandedName, LocalName, Namespace, QualName};
use markup5ever::TokenizerResult;
use markup5ever_rcdom::{Handle, NodeData, RcDom};
use serde_json::{json, Value};
use std::borrow::Cow;
use std::cell::{Cell, RefCell};
use std::collections::HashMap;
use std::rc::Rc;

#[derive(Clone)]
pub struct MonHandle {
    pub id: usize,
    pub h: Handle,
}

pub fn ns_tag(ns: &Namespace) -> String {
    match &**ns {
        "http://www.w3.org/1999/xhtml" => "html".into(),
        "http://www.w3.org/2000/svg" => "svg".into(),
        "http://www.w3.org/1998/Math/MathML" => "mathml".into(),
        "http://www.w3.org/1999/xlink" => "xlink".into(),
        "http://www.w3.org/XML/1998/namespace" => "xml".into(),
        "http://www.w3.org/2000/xmlns/" => "xmlns".into(),
        other => other.to_string(),
    }
}
pub fn ns_from_tag(t: &str) -> Namespace {
    Namespace::from(match t {
        "html" => "http://www.w3.org/1999/xhtml",
        "svg" => "http://www.w3.org/2000/svg",
        "mathml" => "http://www.w3.org/1998/Math/MathML",
        "xlink" => "http://www.w3.org/1999/xlink",
        "xml" => "http://www.w3.org/XML/1998/namespace",
        "xmlns" => "http://www.w3.org/2000/xmlns/",
        o => o,
    })
}

pub fn attr_json(a: &Attribute) -> Value {
    json!({"ns": ns_tag(&a.name.ns),
           "prefix": match &a.name.prefix { Some(p) => json!([cps(p)]), None => json!([]) },
           "local": cps(&a.name.local), "v": cps(&a.value)})
}
pub fn attrs_json(v: &[Attribute]) -> Value {
    Value::Array(v.iter().map(attr_json).collect())
}

pub struct MonSink {
    pub inner: RcDom,
    pub log: RefCell<Vec<Value>>,
    next_id: Cell<usize>,
    tmpl: RefCell<HashMap<usize, MonHandle>>,
    doc: MonHandle,
    pub quiet: bool, // do not log elem_name / same_node / set_current_line (volume)
    last_line: Cell<u64>,
    /// had_duplicate_attributes flag given at creation, by RcDom node address (RcDom does not keep it)
    pub dups: RefCell<HashMap<usize, bool>>,
}

impl MonSink {
    pub fn new(quiet: bool) -> MonSink {
        let inner = RcDom::default();
        let doc = MonHandle { id: 0, h: inner.document.clone() };
        MonSink {
            inner,
            log: RefCell::new(Vec::new()),
            next_id: Cell::new(1),
            tmpl: RefCell::new(HashMap::new()),
            doc,
            quiet,
            last_line: Cell::new(0),
            dups: RefCell::new(HashMap::new()),
        }
    }
    fn ev(&self, v: Value) {
        self.log.borrow_mut().push(v);
    }
    fn fresh(&self, h: Handle) -> MonHandle {
        let id = self.next_id.get();
        self.next_id.set(id + 1);
        MonHandle { id, h }
    }
    fn child_fields(c: &NodeOrText<MonHandle>) -> (&'static str, usize, Value) {
        match c {
            NodeOrText::AppendNode(n) => ("node", n.id, json!([])),
            NodeOrText::AppendText(t) => ("text", 0, cps(t)),
        }
    }
    fn inner_child(c: NodeOrText<MonHandle>) -> NodeOrText<Handle> {
        match c {
            NodeOrText::AppendNode(n) => NodeOrText::AppendNode(n.h),
            NodeOrText::AppendText(t) => NodeOrText::AppendText(t),
        }
    }
}

impl TreeSink for MonSink {
    type Handle = MonHandle;
    type Output = MonSink;
    type ElemName<'a> = ExpandedName<'a>;

    fn finish(self) -> MonSink {
        self
    }
    fn parse_error(&self, _msg: Cow<'static, str>) {
        self.ev(json!({"ev":"parse_error"}));
    }
    fn get_document(&self) -> MonHandle {
        self.doc.clone()
    }
    fn elem_name<'a>(&'a self, target: &'a MonHandle) -> ExpandedName<'a> {
        if !self.quiet {
            self.ev(json!({"ev":"elem_name","target":target.id}));
        } else if !matches!(target.h.data, NodeData::Element { .. }) {
            self.ev(json!({"ev":"elem_name","target":target.id}));
        }
        self.inner.elem_name(&target.h)
    }
    fn create_element(&self, name: QualName, attrs: Vec<Attribute>, flags: ElementFlags) -> MonHandle {
        let j = json!({"ev":"create_element","id":self.next_id.get(),"ns":ns_tag(&name.ns),"local":cps(&name.local),
                       "prefix": match &name.prefix { Some(p) => json!([cps(p)]), None => json!([]) },
                       "attrs":attrs_json(&attrs),"template":flags.template,
                       "ip":flags.mathml_annotation_xml_integration_point,"dup":flags.had_duplicate_attributes});
        self.ev(j);
        let dup = flags.had_duplicate_attributes;
        let h = self.inner.create_element(name, attrs, flags);
        self.dups.borrow_mut().insert(Rc::as_ptr(&h) as usize, dup);
        self.fresh(h)
    }
    fn create_comment(&self, text: StrTendril) -> MonHandle {
        self.ev(json!({"ev":"create_comment","id":self.next_id.get(),"text":cps(&text)}));
        let h = self.inner.create_comment(text);
        self.fresh(h)
    }
    fn create_pi(&self, target: StrTendril, data: StrTendril) -> MonHandle {
        self.ev(json!({"ev":"create_pi","id":self.next_id.get(),"target":cps(&target),"data":cps(&data)}));
        let h = self.inner.create_pi(target, data);
        self.fresh(h)
    }
    fn append(&self, parent: &MonHandle, child: NodeOrText<MonHandle>) {
        let (k, c, t) = Self::child_fields(&child);
        self.ev(json!({"ev":"append","parent":parent.id,"k":k,"child":c,"text":t}));
        self.inner.append(&parent.h, Self::inner_child(child));
    }
    fn append_based_on_parent_node(&self, element: &MonHandle, prev: &MonHandle, child: NodeOrText<MonHandle>) {
        let (k, c, t) = Self::child_fields(&child);
        self.ev(json!({"ev":"append_based_on_parent_node","element":element.id,"prev":prev.id,"k":k,"child":c,"text":t}));
        self.inner.append_based_on_parent_node(&element.h, &prev.h, Self::inner_child(child));
    }
    fn append_doctype_to_document(&self, name: StrTendril, public_id: StrTendril, system_id: StrTendril) {
        self.ev(json!({"ev":"append_doctype","name":cps(&name),"pub":cps(&public_id),"sys":cps(&system_id)}));
        self.inner.append_doctype_to_document(name, public_id, system_id);
    }
    fn mark_script_already_started(&self, node: &MonHandle) {
        self.ev(json!({"ev":"mark_script_already_started","node":node.id}));
        self.inner.mark_script_already_started(&node.h);
    }
    fn pop(&self, node: &MonHandle) {
        self.ev(json!({"ev":"pop","node":node.id}));
        self.inner.pop(&node.h);
    }
    fn get_template_contents(&self, target: &MonHandle) -> MonHandle {
        let known = self.tmpl.borrow().get(&target.id).cloned();
        let ret_id = match &known {
            Some(m) => m.id,
            None => self.next_id.get(),
        };
        self.ev(json!({"ev":"get_template_contents","target":target.id,"ret":ret_id}));
        if let Some(m) = known {
            return m;
        }
        let h = self.inner.get_template_contents(&target.h);
        let m = self.fresh(h);
        self.tmpl.borrow_mut().insert(target.id, m.clone());
        m
    }
    fn same_node(&self, x: &MonHandle, y: &MonHandle) -> bool {
        if !self.quiet {
            self.ev(json!({"ev":"same_node","x":x.id,"y":y.id}));
        }
        self.inner.same_node(&x.h, &y.h)
    }
    fn set_quirks_mode(&self, mode: QuirksMode) {
        let m = match mode {
            QuirksMode::Quirks => "full",
            QuirksMode::LimitedQuirks => "limited",
            QuirksMode::NoQuirks => "no",
        };
        self.ev(json!({"ev":"set_quirks_mode","mode":m}));
        self.inner.set_quirks_mode(mode);
    }
    fn append_before_sibling(&self, sibling: &MonHandle, new_node: NodeOrText<MonHandle>) {
        let (k, c, t) = Self::child_fields(&new_node);
        self.ev(json!({"ev":"append_before_sibling","sibling":sibling.id,"k":k,"child":c,"text":t}));
        self.inner.append_before_sibling(&sibling.h, Self::inner_child(new_node));
    }
    fn add_attrs_if_missing(&self, target: &MonHandle, attrs: Vec<Attribute>) {
        self.ev(json!({"ev":"add_attrs_if_missing","target":target.id,"attrs":attrs_json(&attrs)}));
        self.inner.add_attrs_if_missing(&target.h, attrs);
    }
    fn associate_with_form(&self, target: &MonHandle, form: &MonHandle, nodes: (&MonHandle, Option<&MonHandle>)) {
        self.ev(json!({"ev":"associate_with_form","target":target.id,"form":form.id,"n1":nodes.0.id,
                       "n2":nodes.1.map(|n| n.id).unwrap_or(0)}));
    }
    fn remove_from_parent(&self, target: &MonHandle) {
        self.ev(json!({"ev":"remove_from_parent","target":target.id}));
        self.inner.remove_from_parent(&target.h);
    }
    fn reparent_children(&self, node: &MonHandle, new_parent: &MonHandle) {
        self.ev(json!({"ev":"reparent_children","node":node.id,"new_parent":new_parent.id}));
        self.inner.reparent_children(&node.h, &new_parent.h);
    }
    fn is_mathml_annotation_xml_integration_point(&self, handle: &MonHandle) -> bool {
        self.ev(json!({"ev":"is_mathml_ip","target":handle.id}));
        self.inner.is_mathml_annotation_xml_integration_point(&handle.h)
    }
    fn set_current_line(&self, line: u64) {
        if self.last_line.get() != line {
            self.last_line.set(line);
        }
        self.ev(json!({"ev":"set_current_line","line":line}));
    }
    fn maybe_clone_an_option_into_selectedcontent(&self, option: &MonHandle) {
        self.ev(json!({"ev":"maybe_clone_option","option":option.id}));
        self.inner.maybe_clone_an_option_into_selectedcontent(&option.h);
    }
}

struct IdTracer(RefCell<Vec<usize>>);
impl Tracer for IdTracer {
    type Handle = MonHandle;
    fn trace_handle(&self, node: &MonHandle) {
        self.0.borrow_mut().push(node.id);
    }
}

/// Sits between tokenizer and tree builder: logs each token, the line, and the reply.
pub struct Recorder {
    pub tb: TreeBuilder<MonHandle, MonSink>,
    pub log_tokens: bool,
}
fn opt_s(o: &Option<StrTendril>) -> Value {
    match o {
        None => json!([]),
        Some(s) => json!([cps(s)]),
    }
}
impl TokenSink for Recorder {
    type Handle = MonHandle;
    fn process_token(&self, token: Token, line: u64) -> TokenSinkResult<MonHandle> {
        if self.log_tokens {
            let t = match &token {
                Token::DoctypeToken(d) => json!({"k":"doctype","name":opt_s(&d.name),"pub":opt_s(&d.public_id),"sys":opt_s(&d.system_id),"fq":d.force_quirks}),
                Token::TagToken(t) => tag_json(t),
                Token::CommentToken(c) => json!({"k":"comment","s":cps(c)}),
                Token::CharacterTokens(s) => json!({"k":"chars","s":cps(s)}),
                Token::NullCharacterToken => json!({"k":"nul"}),
                Token::EOFToken => json!({"k":"eof"}),
                Token::ParseError(_) => json!({"k":"err"}),
            };
            self.tb.sink.log.borrow_mut().push(json!({"ev":"token","tok":t,"line":line}));
        }
        let r = self.tb.process_token(token, line);
        if self.log_tokens {
            let (rk, label) = match &r {
                TokenSinkResult::Continue => ("continue", json!([])),
                TokenSinkResult::Script(h) => ("script", json!([h.id])),
                TokenSinkResult::Plaintext => ("plaintext", json!([])),
                TokenSinkResult::RawData(k) => (
                    match k {
                        html5ever::tokenizer::states::RawKind::Rcdata => "rcdata",
                        html5ever::tokenizer::states::RawKind::Rawtext => "rawtext",
                        html5ever::tokenizer::states::RawKind::ScriptData => "script_data",
                        _ => "escaped",
                    },
                    json!([]),
                ),
                TokenSinkResult::EncodingIndicator(l) => ("enc", cps(l)),
            };
            self.tb.sink.log.borrow_mut().push(json!({"ev":"reply","r":rk,"x":label}));
        }
        r
    }
    fn end(&self) {
        self.tb.end()
    }
    fn adjusted_current_node_present_but_not_in_html_namespace(&self) -> bool {
        let r = self.tb.adjusted_current_node_present_but_not_in_html_namespace();
        if self.log_tokens {
            self.tb.sink.log.borrow_mut().push(json!({"ev":"token","tok":{"k":"cdataq","ans":r},"line":0}));
            self.tb.sink.log.borrow_mut().push(json!({"ev":"reply","r":"continue","x":[]}));
        }
        r
    }
}

/// canonical, id-free form of an RcDom subtree (iterative on the child lists would be better for
/// very deep trees; the scaled C04 cases do not dump)
pub fn dump(h: &Handle) -> Value {
    let ch = || Value::Array(h.children.borrow().iter().map(dump).collect());
    match &h.data {
        NodeData::Document => json!({"k":"doc","ch":ch()}),
        NodeData::Doctype { name, public_id, system_id } => json!({"k":"doctype","name":cps(name),"pub":cps(public_id),"sys":cps(system_id)}),
        NodeData::Text { contents } => json!({"k":"text","s":cps(&contents.borrow())}),
        NodeData::Comment { contents } => json!({"k":"comment","s":cps(contents)}),
        NodeData::Element { name, attrs, template_contents, .. } => {
            let t = match template_contents.borrow().as_ref() {
                Some(tc) => json!([Value::Array(tc.children.borrow().iter().map(dump).collect())]),
                None => json!([]),
            };
            json!({"k":"el","ns":ns_tag(&name.ns),"local":cps(&name.local),"attrs":attrs_json(&attrs.borrow()),"ch":ch(),"tmpl":t})
        },
        NodeData::ProcessingInstruction { target, contents } => json!({"k":"pi","target":cps(target),"data":cps(contents)}),
    }
}

/// like `dump`, with the creation-time duplicate-attribute flag of every element (C02)
pub fn dump_flags(h: &Handle, dups: &HashMap<usize, bool>) -> Value {
    let ch = || Value::Array(h.children.borrow().iter().map(|c| dump_flags(c, dups)).collect());
    match &h.data {
        NodeData::Document => json!({"k":"doc","ch":ch()}),
        NodeData::Element { name, attrs, template_contents, .. } => {
            let t = match template_contents.borrow().as_ref() {
                Some(tc) => json!([Value::Array(tc.children.borrow().iter().map(|c| dump_flags(c, dups)).collect())]),
                None => json!([]),
            };
            let dup = dups.get(&(Rc::as_ptr(h) as usize)).copied().unwrap_or(false);
            json!({"k":"el","ns":ns_tag(&name.ns),"local":cps(&name.local),"attrs":attrs_json(&attrs.borrow()),"ch":ch(),"tmpl":t,"dup":dup})
        },
        _ => dump(h),
    }
}

/// the order in which RcDom's `Serialize` implementation visits the nodes below `h` (C20: each node once, in
/// document order), recorded through a `Serializer` that only notes what it is asked to write
pub fn ser_events(h: &Handle) -> Value {
    use markup5ever::serialize::{AttrRef, Serialize, Serializer, TraversalScope};
    use markup5ever_rcdom::SerializableHandle;
    struct Rec(Vec<Value>);
    impl Serializer for Rec {
        fn start_elem<'a, I: Iterator<Item = AttrRef<'a>>>(&mut self, name: QualName, attrs: I) -> std::io::Result<()> {
            let n = attrs.count();
            self.0.push(json!({"k":"s","n":cps(&name.local),"a":n}));
            Ok(())
        }
        fn end_elem(&mut self, name: QualName) -> std::io::Result<()> {
            self.0.push(json!({"k":"e","n":cps(&name.local),"a":0}));
            Ok(())
        }
        fn write_text(&mut self, text: &str) -> std::io::Result<()> {
            self.0.push(json!({"k":"t","n":cps(text),"a":0}));
            Ok(())
        }
        fn write_comment(&mut self, text: &str) -> std::io::Result<()> {
            self.0.push(json!({"k":"c","n":cps(text),"a":0}));
            Ok(())
        }
        fn write_doctype(&mut self, name: &str) -> std::io::Result<()> {
            self.0.push(json!({"k":"d","n":cps(name),"a":0}));
            Ok(())
        }
        fn write_processing_instruction(&mut self, target: &str, _data: &str) -> std::io::Result<()> {
            self.0.push(json!({"k":"p","n":cps(target),"a":0}));
            Ok(())
        }
    }
    fn one(h: &Handle, scope: TraversalScope) -> Value {
        let mut rec = Rec(Vec::new());
        let sh: SerializableHandle = h.clone().into();
        match catch(move || { let r = sh.serialize(&mut rec, scope); (r.is_ok(), rec.0) }) {
            Ok((true, v)) => Value::Array(v),
            Ok((false, _)) => json!([{"k":"error","n":[],"a":0}]),
            Err(_) => json!([{"k":"panic","n":[],"a":0}]),
        }
    }
    // every template element of the tree (document order, through template contents) serialized on its own, with both
    // traversal scopes: [children-only visits, include-node visits]
    fn templates(h: &Handle, out: &mut Vec<Value>) {
        if let NodeData::Element { name, template_contents, .. } = &h.data {
            if let Some(tc) = template_contents.borrow().as_ref() {
                out.push(json!([one(h, TraversalScope::ChildrenOnly(Some(name.clone()))), one(h, TraversalScope::IncludeNode)]));
                for c in tc.children.borrow().iter() {
                    templates(c, out);
                }
                return;
            }
        }
        for c in h.children.borrow().iter() {
            templates(c, out);
        }
    }
    let mut t = Vec::new();
    templates(h, &mut t);
    json!({"doc": one(h, TraversalScope::ChildrenOnly(None)), "templates": t})
}

/// every node's parent link names the node whose child list contains it (C20)
pub fn parents_consistent(h: &Handle) -> bool {
    for c in h.children.borrow().iter() {
        let p = c.parent.take();
        let ok = match &p {
            Some(w) => w.upgrade().map(|pp| Rc::ptr_eq(&pp, h)).unwrap_or(false),
            None => false,
        };
        c.parent.set(p);
        if !ok || !parents_consistent(c) {
            return false;
        }
        if let NodeData::Element { template_contents, .. } = &c.data {
            if let Some(tc) = template_contents.borrow().as_ref() {
                if !parents_consistent(tc) {
                    return false;
                }
            }
        }
    }
    true
}

pub struct ParseOut {
    pub events: Vec<Value>,
    pub tree: Value,
    pub quirks: &'static str,
    pub parents_ok: bool,
    pub panic: Option<String>,
    pub feeds: Vec<Value>,
    pub neof: usize,
    pub tree_flags: Value,
    pub istate: String,
    pub ser: Value,
    /// the input with the injected strings written in place (equals the input when nothing was injected)
    pub virtual_text: String,
}

/// case: {"mode":"doc"|"frag","ctx":{"ns","local"},"scripting":bool,"srcdoc":bool,"drop_doctype":bool,
///        "iquirks":"no"|"limited"|"full","exact":bool,"bom":bool,"tb_exact":bool,"chunks":[[cp..]..],
///        "gc":bool (call trace_handles at every suspension), "quiet":bool, "tokens":bool}
pub fn run_parse(case: &Value) -> ParseOut {
    let chunks: Vec<String> = case["chunks"].as_array().unwrap().iter().map(from_cps).collect();
    let tbopts = TreeBuilderOpts {
        exact_errors: case["tb_exact"].as_bool().unwrap_or(false),
        scripting_enabled: case["scripting"].as_bool().unwrap_or(true),
        iframe_srcdoc: case["srcdoc"].as_bool().unwrap_or(false),
        drop_doctype: case["drop_doctype"].as_bool().unwrap_or(false),
        quirks_mode: match case["iquirks"].as_str().unwrap_or("no") {
            "full" => QuirksMode::Quirks,
            "limited" => QuirksMode::LimitedQuirks,
            _ => QuirksMode::NoQuirks,
        },
    };
    let gc = case["gc"].as_bool().unwrap_or(false);
    let quiet = case["quiet"].as_bool().unwrap_or(true);
    let sink = MonSink::new(quiet);
    let frag = case["mode"] == "frag";
    let scripting = tbopts.scripting_enabled;
    let mut topts = TokenizerOpts {
        exact_errors: case["exact"].as_bool().unwrap_or(false),
        discard_bom: case["bom"].as_bool().unwrap_or(true),
        profile: false,
        initial_state: case.get("state").and_then(|s| s.as_str()).and_then(parse_state),
        last_start_tag_name: None,
    };
    let mut panic = None;
    let mut istate = String::from("none");
    let tb = if frag {
        let ns = ns_from_tag(case["ctx"]["ns"].as_str().unwrap_or("html"));
        let local = LocalName::from(&*from_cps(&case["ctx"]["local"]));
        let ctx_attrs: Vec<Attribute> = case["ctx"]["attrs"]
            .as_array()
            .map(|a| {
                a.iter()
                    .map(|x| Attribute {
                        name: QualName::new(None, ns_from_tag(x["ns"].as_str().unwrap_or("")), LocalName::from(&*from_cps(&x["local"]))),
                        value: StrTendril::from_slice(&from_cps(&x["v"])),
                    })
                    .collect()
            })
            .unwrap_or_default();
        let ctx = html5ever::tree_builder::create_element(&sink, QualName::new(None, ns, local), ctx_attrs);
        sink.ev(json!({"ev":"context","id":ctx.id}));
        // optionally a caller-supplied form owner (a form element that is not part of the fragment)
        let form = if case["form_owner"].as_bool().unwrap_or(false) {
            let f = html5ever::tree_builder::create_element(&sink, QualName::new(None, ns_from_tag("html"), LocalName::from("form")), vec![]);
            sink.ev(json!({"ev":"context","id":f.id}));
            Some(f)
        } else {
            None
        };
        let tb = TreeBuilder::new_for_fragment(sink, ctx, form, tbopts);
        let st = tb.tokenizer_state_for_context_elem(scripting);
        istate = format!("{:?}", st);
        topts.initial_state = Some(st);
        tb
    } else {
        TreeBuilder::new(sink, tbopts)
    };
    let rec = Recorder { tb, log_tokens: case["tokens"].as_bool().unwrap_or(true) };
    let tok = Tokenizer::new(rec, topts);
    let queue = BufferQueue::default();
    let mut feeds = Vec::new();
    let trace = |tok: &Tokenizer<Recorder>| {
        let t = IdTracer(RefCell::new(Vec::new()));
        tok.sink.tb.trace_handles(&t);
        let ids = t.0.into_inner();
        tok.sink.tb.sink.ev(json!({"ev":"trace_handles","ids":ids}));
    };
    // document.write simulation (C03): at the k-th script suspension the k-th string of case["inject"] is pushed to the
    // front of the input.  `virtual_text` is the input as it reads once those strings are written in place.
    let injects: Vec<String> = case["inject"].as_array().map(|a| a.iter().map(from_cps).collect()).unwrap_or_default();
    let virtual_text: RefCell<Vec<char>> = RefCell::new(chunks.concat().chars().collect());
    let fed_chars = Cell::new(0usize);
    let ninj = Cell::new(0usize);
    let queue_len = |q: &BufferQueue| -> usize {
        let c = q.clone();
        let mut n = 0;
        while let Some(b) = c.pop_front() {
            n += b.chars().count();
        }
        n
    };
    let r = catch(|| {
        for ch in &chunks {
            queue.push_back(StrTendril::from_slice(ch));
            fed_chars.set(fed_chars.get() + ch.chars().count());
            tok.sink.tb.sink.ev(json!({"ev":"feed","n":ch.chars().count()}));
            loop {
                let res = tok.feed(&queue);
                if let TokenizerResult::Script(_) = &res {
                    if ninj.get() < injects.len() {
                        let inj = &injects[ninj.get()];
                        ninj.set(ninj.get() + 1);
                        let consumed = fed_chars.get() - queue_len(&queue);
                        if !inj.is_empty() {
                            let mut v = virtual_text.borrow_mut();
                            let tail: Vec<char> = v.split_off(consumed);
                            v.extend(inj.chars());
                            v.extend(tail);
                            queue.push_front(StrTendril::from_slice(inj));
                            fed_chars.set(fed_chars.get() + inj.chars().count());
                        }
                    }
                }
                let (ret, label) = match &res {
                    TokenizerResult::Done => ("done", json!([])),
                    TokenizerResult::Script(h) => ("script", json!([h.id])),
                    TokenizerResult::EncodingIndicator(l) => ("enc", cps(l)),
                };
                let e = json!({"ev":"feed_ret","ret":ret,"x":label,"empty":queue.is_empty()});
                feeds.push(e.clone());
                tok.sink.tb.sink.ev(e);
                if gc {
                    trace(&tok);
                }
                if ret == "done" {
                    break;
                }
            }
        }
        tok.sink.tb.sink.ev(json!({"ev":"end"}));
        tok.end();
    });
    if let Err(m) = r {
        panic = Some(m);
    }
    let sink = &tok.sink.tb.sink;
    let events = sink.log.replace(Vec::new());
    let want_tree = case["dump"].as_bool().unwrap_or(true);
    let tree = if want_tree && panic.is_none() { dump(&sink.inner.document) } else { json!({"k":"none"}) };
    let quirks = match sink.inner.quirks_mode.get() {
        QuirksMode::Quirks => "full",
        QuirksMode::LimitedQuirks => "limited",
        QuirksMode::NoQuirks => "no",
    };
    let parents_ok = if want_tree && panic.is_none() { parents_consistent(&sink.inner.document) } else { true };
    let neof = events.iter().filter(|e| e["ev"] == "token" && e["tok"]["k"] == "eof").count();
    let tree_flags = if want_tree && panic.is_none() { dump_flags(&sink.inner.document, &sink.dups.borrow()) } else { json!({"k":"none"}) };
    let ser = if want_tree && panic.is_none() { ser_events(&sink.inner.document) } else { json!([]) };
    let virtual_text: String = virtual_text.borrow().iter().collect();
    ParseOut { events, tree, quirks, parents_ok, panic, feeds, neof, tree_flags, istate, ser, virtual_text }
}

/// Drive the tree builder directly with a token sequence (no tokenizer): the spec -> implementation
/// direction of C02.  case: {"mode","ctx":{"ns","local"},"scripting", "toks":[token json as logged]}
pub fn run_tokens(case: &Value) -> ParseOut {
    use html5ever::tokenizer::{Doctype, Tag, TagKind};
    let scripting = case["scripting"].as_bool().unwrap_or(true);
    let tbopts = TreeBuilderOpts { scripting_enabled: scripting, ..Default::default() };
    let sink = MonSink::new(true);
    let mut istate = String::from("none");
    let tb = if case["mode"] == "frag" {
        let ns = ns_from_tag(case["ctx"]["ns"].as_str().unwrap_or("html"));
        let local = LocalName::from(&*from_cps(&case["ctx"]["local"]));
        let ctx = html5ever::tree_builder::create_element(&sink, QualName::new(None, ns, local), vec![]);
        sink.ev(json!({"ev":"context","id":ctx.id}));
        let tb = TreeBuilder::new_for_fragment(sink, ctx, None, tbopts);
        istate = format!("{:?}", tb.tokenizer_state_for_context_elem(scripting));
        tb
    } else {
        TreeBuilder::new(sink, tbopts)
    };
    let rec = Recorder { tb, log_tokens: true };
    let opt = |v: &Value| -> Option<StrTendril> { v.as_array().and_then(|a| a.first()).map(|x| StrTendril::from_slice(&from_cps(x))) };
    let r = catch(|| {
        for t in case["toks"].as_array().unwrap() {
            let tok = match t["k"].as_str().unwrap() {
                "start" | "end" => Token::TagToken(Tag {
                    kind: if t["k"] == "start" { TagKind::StartTag } else { TagKind::EndTag },
                    name: LocalName::from(&*from_cps(&t["name"])),
                    self_closing: t["sc"].as_bool().unwrap_or(false),
                    attrs: t["attrs"].as_array().map(|a| a.iter().map(|x| Attribute {
                        name: QualName::new(None, Namespace::from(""), LocalName::from(&*from_cps(&x["n"]))),
                        value: StrTendril::from_slice(&from_cps(&x["v"])),
                    }).collect()).unwrap_or_default(),
                    had_duplicate_attributes: t["dup"].as_bool().unwrap_or(false),
                }),
                "chars" => Token::CharacterTokens(StrTendril::from_slice(&from_cps(&t["s"]))),
                "comment" => Token::CommentToken(StrTendril::from_slice(&from_cps(&t["s"]))),
                "nul" => Token::NullCharacterToken,
                "eof" => Token::EOFToken,
                "doctype" => Token::DoctypeToken(Doctype { name: opt(&t["name"]), public_id: opt(&t["pub"]), system_id: opt(&t["sys"]),
                                                           force_quirks: t["fq"].as_bool().unwrap_or(false) }),
                other => panic!("bad token kind {}", other),
            };
            let _ = rec.process_token(tok, 1);
        }
        rec.end();
    });
    let panic = r.err();
    let sink = &rec.tb.sink;
    let events = sink.log.replace(Vec::new());
    let tree = if panic.is_none() { dump(&sink.inner.document) } else { json!({"k":"none"}) };
    let tree_flags = if panic.is_none() { dump_flags(&sink.inner.document, &sink.dups.borrow()) } else { json!({"k":"none"}) };
    let quirks = match sink.inner.quirks_mode.get() {
        QuirksMode::Quirks => "full",
        QuirksMode::LimitedQuirks => "limited",
        QuirksMode::NoQuirks => "no",
    };
    let neof = events.iter().filter(|e| e["ev"] == "token" && e["tok"]["k"] == "eof").count();
    ParseOut { events, tree, quirks, parents_ok: true, panic, feeds: Vec::new(), neof, tree_flags, istate, ser: json!([]), virtual_text: String::new() }
}

/// Bytes through the driver's from_utf8() front end (Utf8LossyDecoder -> Parser): C10's tree clause.
/// case: {"bytes":[[u8..]..], "scripting":bool}
pub fn run_parse_bytes(case: &Value) -> ParseOut {
    use html5ever::driver::{parse_document, ParseOpts};
    use html5ever::tendril::{ByteTendril, TendrilSink};
    let scripting = case["scripting"].as_bool().unwrap_or(true);
    let opts = ParseOpts { tree_builder: TreeBuilderOpts { scripting_enabled: scripting, ..Default::default() }, ..Default::default() };
    let chunks: Vec<Vec<u8>> = case["bytes"].as_array().unwrap().iter()
        .map(|c| c.as_array().unwrap().iter().map(|b| b.as_u64().unwrap() as u8).collect()).collect();
    let r = catch(move || {
        let mut p = parse_document(MonSink::new(true), opts).from_utf8();
        for ch in &chunks {
            p.process(ByteTendril::from_slice(ch));
        }
        p.finish()
    });
    match r {
        Ok(sink) => {
            let tree = dump(&sink.inner.document);
            let tree_flags = dump_flags(&sink.inner.document, &sink.dups.borrow());
            let quirks = match sink.inner.quirks_mode.get() {
                QuirksMode::Quirks => "full",
                QuirksMode::LimitedQuirks => "limited",
                QuirksMode::NoQuirks => "no",
            };
            let parents_ok = parents_consistent(&sink.inner.document);
            ParseOut { events: Vec::new(), tree, quirks, parents_ok, panic: None, feeds: Vec::new(), neof: 1, tree_flags, istate: "none".into(), ser: json!([]), virtual_text: String::new() }
        },
        Err(m) => ParseOut { events: Vec::new(), tree: json!({"k":"none"}), quirks: "no", parents_ok: true, panic: Some(m), feeds: Vec::new(), neof: 0,
                             tree_flags: json!({"k":"none"}), istate: "none".into(), ser: json!([]), virtual_text: String::new() },
    }
}
