-------------------------- MODULE MC_HtmlRoundTrip --------------------------
(***************************************************************************)
(* Design-level statement of C07 (a), on trees: for every tree of ordinary *)
(* elements (here div, span, b, i; with scripting disabled also noscript)  *)
(* with attribute values and text over an alphabet of the characters that  *)
(* matter to the tokenizer, parsing the L0 serialization of its children   *)
(* as a fragment with a div context (L0 parser: HtmlParser) gives the tree *)
(* back.  Trees are built node by node: a state is a list of "moves"       *)
(* (open an element with an attribute value, add text, close), which keeps *)
(* them well-nested; every explored tree is exported and put through the   *)
(* real serializer and the real fragment parser.                           *)
(***************************************************************************)
EXTENDS HtmlParser, TreeCanon, TLC, Json

CONSTANTS MaxMoves, Scripting, DoExport, Strs

Ser == INSTANCE HtmlSerializeTree

N_div2 == <<100, 105, 118>>
N_span2 == <<115, 112, 97, 110>>
N_b2 == <<98>>
N_i2 == <<105>>
ElNames == {N_div2, N_span2, N_b2, N_i2} \cup (IF Scripting THEN {} ELSE {N_noscript})
\* strings used as attribute values and as text
MC_StrsAll == { <<38>>, <<60>>, <<62>>, <<34>>, <<39>>, <<160>>, <<97>>, <<38, 97, 109, 112>>, <<38, 97, 109, 112, 59>>, <<60, 47, 98, 62>>, <<60, 98>>,
                <<38, 35, 54, 53>>, <<34, 62>>, <<45, 45, 62>>, <<32>>, <<60, 33, 45, 45>>, <<10>>, <<65279>> }
MC_StrsQuick == { <<38>>, <<60>>, <<34, 62>>, <<160>>, <<97>>, <<38, 97, 109, 112>>, <<60, 47, 98, 62>>, <<65279>> }

\* moves: [m |-> "open", name, v] (element with attribute x = v; v = <<>>: no attribute), [m |-> "text", s], [m |-> "close"]
VARIABLES moves, depth, lastText
Init == moves = <<>> /\ depth = 0 /\ lastText = FALSE
Next == /\ Len(moves) < MaxMoves
        /\ \/ \E n \in ElNames, v \in Strs \cup {<<>>} :
                 /\ depth < 3
                 /\ moves' = Append(moves, [m |-> "open", name |-> n, v |-> v]) /\ depth' = depth + 1 /\ lastText' = FALSE
           \/ \E s \in Strs : ~lastText /\ moves' = Append(moves, [m |-> "text", name |-> <<>>, v |-> s]) /\ depth' = depth /\ lastText' = TRUE
           \/ depth > 0 /\ moves' = Append(moves, [m |-> "close", name |-> <<>>, v |-> <<>>]) /\ depth' = depth - 1 /\ lastText' = FALSE
Spec == Init /\ [][Next]_<<moves, depth, lastText>>

\* the tree described by the moves (open elements at the end are closed): children of the root
El(name, v, ch) == [k |-> "el", ns |-> "html", local |-> name,
                    attrs |-> IF v = <<>> THEN <<>> ELSE <<[ns |-> "", prefix |-> <<>>, local |-> <<120>>, v |-> v]>>,
                    ch |-> ch, tmpl |-> <<>>, dup |-> FALSE]
RECURSIVE Build(_, _)
\* returns [ch |-> children built, i |-> index after the matching close]
Build(ms, i) ==
    IF i > Len(ms) \/ ms[i].m = "close" THEN [ch |-> <<>>, i |-> i + 1]
    ELSE IF ms[i].m = "text" THEN LET r == Build(ms, i + 1) IN [ch |-> <<[k |-> "text", s |-> ms[i].v]>> \o r.ch, i |-> r.i]
    ELSE LET inner == Build(ms, i + 1)
             rest == Build(ms, inner.i) IN
         [ch |-> <<El(ms[i].name, ms[i].v, inner.ch)>> \o rest.ch, i |-> rest.i]
Tree == Build(moves, 1).ch

Ctx == [ns |-> "html", local |-> N_div2, attrs |-> <<>>]
Reparsed ==
    LET text == Ser!SerializeChildrenOf("html", N_div2, Tree, Scripting)
        t == PRun(text, Tok!InitTok([state |-> "Data", last |-> <<>>]), 1, FragmentInit(Scripting, "no", Ctx), <<>>)
        doc == CanonD(t.nodes, 0) IN
    doc.ch[1].ch                          \* document > html > children
RoundTrip == Reparsed = Tree
Export == DoExport => PrintT(<<"REPLAY", ToJson([tree |-> Tree, scripting |-> Scripting])>>)
=============================================================================
