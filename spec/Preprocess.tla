----------------------------- MODULE Preprocess -----------------------------
(***************************************************************************)
(* L0: input-stream preprocessing (WHATWG 13.2.3.5): CR LF and lone CR     *)
(* become LF.  Line-break counting for C09: LF, CR, or CR LF counted once. *)
(***************************************************************************)
EXTENDS Chars

RECURSIVE PreFrom(_, _, _)
PreFrom(raw, i, acc) ==
    IF i > Len(raw) THEN acc
    ELSE IF raw[i] = CR THEN PreFrom(raw, IF i < Len(raw) /\ raw[i + 1] = LF THEN i + 2 ELSE i + 1, Append(acc, LF))
    ELSE PreFrom(raw, i + 1, Append(acc, raw[i]))

Normalize(raw) == PreFrom(raw, 1, <<>>)

\* strip a U+FEFF that is the very first character of the whole stream
StripBom(raw) == IF raw # <<>> /\ raw[1] = BOM THEN Tail(raw) ELSE raw

\* number of line breaks in raw[1..n]: LF, CR, or CRLF counted once
\* (a CR at position n counts even if raw[n+1] is LF: the pair is counted once, at the CR)
RECURSIVE BreaksUpTo(_, _, _, _)
BreaksUpTo(raw, n, i, acc) ==
    IF i > n THEN acc
    ELSE IF raw[i] = CR THEN BreaksUpTo(raw, n, i + 1, acc + 1)
    ELSE IF raw[i] = LF THEN BreaksUpTo(raw, n, i + 1, IF i > 1 /\ raw[i - 1] = CR THEN acc ELSE acc + 1)
    ELSE BreaksUpTo(raw, n, i + 1, acc)
Breaks(raw, n) == BreaksUpTo(raw, n, 1, 0)
=============================================================================
