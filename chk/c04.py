"""C04 - parsing is total: no panic, no hang, all input consumed, one EOF."""
import os
from . import core
from .core import Run, WORK

RULE = ("Model level: MC_TokInput checks in every reachable state that feed() returning Done leaves the queue empty and "
        "that end() delivers exactly one EOF, last (QueueDrained, OneEofLast) for all inputs/chunkings/options within "
        "bounds; TLC fails on any partial function application, so totality of the modelled machine is implicit.  "
        "Real code: the tokenizer is run on enumerated piece strings from every start state under all chunkings and "
        "option sets, on random Unicode strings and on scaled pathological inputs; each run logs panic, the result "
        "and queue state of every feed(), whether end() completed, and the EOF count; TLC judges the monitors "
        "(Trace_Total).  A harness process that dies or exceeds its watchdog is a violation attributed to the case "
        "it was running.  Parser level: real HTML parses (enumerated tag soup as documents and fragments, chunked random "
        "soup, scaled nestings/runs of 40 constructs) and real XML parses (soup, structured documents, scaled) through "
        "tree builder and RcDom; Trace_Sink judges no panic, exactly one EOF token, and queue empty at every Done.")
SPEC, CFG = "Trace_Total.tla", "Trace_Total.cfg"


def classify(f, objs):
    return False


def run(tier, seed, replay=None):
    r = Run("C04", tier, seed)
    core.build_harness()
    F = ["--fields", "feeds"]
    SINK = dict(env={"PROP": "C04"})
    if replay:
        meta, lines = core.load_replay(replay)
        src = os.path.join(WORK, "traces", "C04-replay-in.ndjson")
        with open(src, "w") as f:
            f.write("\n".join(lines) + "\n")
        sub = meta.get("sub", "tok")
        if sub in ("parse", "xml"):
            r.gen_validate("replay", [sub, "--replay"] + (["--mode", "sink"] if sub == "xml" else []), "Trace_Sink.tla", "Trace_Sink.cfg", 1,
                           classify, core.count_resets, stdin_files=[src], crash_is_violation=True, **SINK)
            return r.finish(RULE, write=False)
        r.gen_validate("replay", ["tok", "--replay"] + F, SPEC, CFG, 1, classify, core.count_lines, stdin_files=[src], crash_is_violation=True)
        return r.finish(RULE, write=False)
    quick = tier == "quick"
    N = core.NCPU
    res = core.tlc_mc("C04-mc", "MC_TokInput.tla", "MC_TokInput.cfg" if quick else "MC_TokInput_thorough.cfg", timeout=5000, xmx="16g")
    r.add_mc("MC_TokInput", res)
    r.gen_validate("tok-enum-k2-allchunk", ["tok", "--mode", "enum", "--k", 2, "--pieces", 24, "--chunk", "all", "--opts", "all"] + F, SPEC, CFG, N,
                   classify, core.count_lines, timeout=3000, crash_is_violation=True)
    r.gen_validate("tok-prefixed-k2", ["tok", "--mode", "prefixed", "--k", 2, "--pieces", 20, "--chunk", "some"] + F, SPEC, CFG, N,
                   classify, core.count_lines, timeout=3000, crash_is_violation=True)
    r.gen_validate("tok-random", ["tok", "--mode", "random", "--n", 500 if quick else 8000, "--maxlen", 80, "--chunk", "some", "--opts", "all"] + F,
                   SPEC, CFG, N, classify, core.count_lines, timeout=3000, crash_is_violation=True)
    r.gen_validate("tok-charref-bounds", ["tok", "--mode", "crbounds", "--chunk", "some", "--opts", "all"] + F, SPEC, CFG, N, classify, core.count_lines,
                   timeout=3000, crash_is_violation=True)
    r.gen_validate("tok-scaled", ["tok", "--mode", "scaled", "--scale", 20000 if quick else 1000000] + F, SPEC, CFG, 4,
                   classify, core.count_lines, timeout=3000, crash_is_violation=True)
    # parser level (HTML tree builder + RcDom, XML tokenizer + tree builder + RcDom): Trace_Sink with PROP=C04 judges
    # "no panic", "one EOF" on the tree event and "Done => queue empty" on every feed() return
    TS, TC = "Trace_Sink.tla", "Trace_Sink.cfg"
    r.gen_validate("html-parse-enum-k3", ["parse", "--mode", "enum", "--k", 3, "--pieces", 10 if quick else 14], TS, TC, N, classify,
                   core.count_resets, timeout=3000, crash_is_violation=True, **SINK)
    r.gen_validate("html-parse-random-chunked", ["parse", "--mode", "random", "--n", 300 if quick else 6000, "--maxpieces", 30, "--chunk", "some"],
                   TS, TC, N, classify, core.count_resets, timeout=3000, crash_is_violation=True, **SINK)
    r.gen_validate("html-parse-scaled", ["parse", "--mode", "scaled", "--scale", 20000 if quick else 400000], TS, TC, N, classify,
                   core.count_resets, timeout=3000, crash_is_violation=True, **SINK)
    r.gen_validate("xml-parse-soup-chunked", ["xml", "--mode", "sink", "--gen", "text", "--n", 300 if quick else 6000, "--chunk", "some"], TS, TC, N,
                   classify, core.count_resets, timeout=3000, crash_is_violation=True, **SINK)
    r.gen_validate("xml-parse-structured", ["xml", "--mode", "sink", "--n", 500 if quick else 10000], TS, TC, N, classify, core.count_resets,
                   timeout=3000, crash_is_violation=True, **SINK)
    r.gen_validate("xml-parse-scaled", ["xml", "--mode", "sink", "--gen", "scaled", "--scale", 20000 if quick else 400000], TS, TC, 1, classify,
                   core.count_resets, timeout=3000, crash_is_violation=True, **SINK)
    r.assumptions = ["native stack depth and wall-clock hangs are observed only on the scaled replays (sampled)",
                     "the sink used is contract-abiding (recording sink / RcDom)"]
    return r.finish(RULE)
