SPECIFICATION Spec
POSTCONDITION AllConsumed
CHECK_DEADLOCK FALSE
