//! C13: drive the real BufferQueue; log each call's result and the remaining content.
use crate::util::*;
use markup5ever::buffer_queue::{BufferQueue, SetResult};
use markup5ever::SmallCharSet;
use serde_json::{json, Value};
use tendril::StrTendril;

fn none_r() -> Value {
    json!({"k":"none","c":0,"s":[],"b":false})
}
fn char_r(c: char) -> Value {
    json!({"k":"char","c":c as u32,"s":[],"b":false})
}
fn str_r(s: &str) -> Value {
    json!({"k":"str","c":0,"s":cps(s),"b":false})
}
fn bool_r(b: bool) -> Value {
    json!({"k":"bool","c":0,"s":[],"b":b})
}

fn rest(q: &BufferQueue) -> Value {
    // BufferQueue is Clone; drain a clone buffer by buffer.
    let c = q.clone();
    let mut v = Vec::new();
    while let Some(b) = c.pop_front() {
        v.push(cps(&b));
    }
    Value::Array(v)
}

fn new_queue(pre: &Value) -> BufferQueue {
    let q = BufferQueue::default();
    for b in pre.as_array().unwrap() {
        q.push_back(StrTendril::from_slice(&from_cps(b)));
    }
    q
}

fn do_op(q: &BufferQueue, op: &Value, id: u64, out: &mut Out) {
    let name = op["op"].as_str().unwrap();
    let s = from_cps(&op["s"]);
    let r = catch(|| match name {
        "push_back" => {
            q.push_back(StrTendril::from_slice(&s));
            none_r()
        },
        "push_front" => {
            q.push_front(StrTendril::from_slice(&s));
            none_r()
        },
        "peek" => q.peek().map(char_r).unwrap_or_else(none_r),
        "next" => q.next().map(char_r).unwrap_or_else(none_r),
        "pop_except" => {
            let mut bits = 0u64;
            for c in op["set"].as_array().unwrap() {
                bits |= 1u64 << c.as_u64().unwrap();
            }
            match q.pop_except_from(SmallCharSet { bits }) {
                None => none_r(),
                Some(SetResult::FromSet(c)) => char_r(c),
                Some(SetResult::NotFromSet(t)) => str_r(&t),
            }
        },
        "eat" => {
            let ci = op["ci"].as_bool().unwrap();
            let r = if ci {
                q.eat(&s, |a, b| a.eq_ignore_ascii_case(b))
            } else {
                q.eat(&s, |a, b| a == b)
            };
            r.map(bool_r).unwrap_or_else(none_r)
        },
        _ => panic!("unknown op"),
    });
    let r = match r {
        Ok(v) => v,
        Err(m) => json!({"k":"panic","c":0,"s":cps(&m),"b":false}),
    };
    out.line(&json!({"ev":"op","case":id,"op":name,"s":op["s"],"set":op["set"],"ci":op["ci"],
                     "r":r,"rest":rest(q)}));
}

fn reset(pre: &Value, id: u64, out: &mut Out) -> BufferQueue {
    let q = new_queue(pre);
    out.line(&json!({"ev":"reset","case":id,"pre":rest(&q)}));
    q
}

const ALPHA: &[char] = &['a', 'A', '&', '<', 'b', '\u{e9}', '\u{10000}', '\n', '\0', ' ', 'z', '\u{fffd}'];

fn rand_str(r: &mut Rng, max: usize) -> String {
    let n = r.below(max + 1);
    (0..n).map(|_| *r.pick(ALPHA)).collect()
}

fn flat_of(q: &BufferQueue) -> Vec<char> {
    let c = q.clone();
    let mut v = Vec::new();
    while let Some(b) = c.pop_front() {
        v.extend(b.chars());
    }
    v
}

/// Choose the next operation; patterns for eat are derived from the current content so that
/// matches, case-insensitive matches, near-misses and need-more answers all occur.
pub fn gen_op(r: &mut Rng, q: &BufferQueue) -> Value {
    match r.below(10) {
        0 | 1 | 2 => json!({"op":"push_back","s":cps(&rand_str(r, 5)),"set":[],"ci":false}),
        3 => json!({"op":"push_front","s":cps(&rand_str(r, 4)),"set":[],"ci":false}),
        4 => json!({"op":"peek","s":[],"set":[],"ci":false}),
        5 => json!({"op":"next","s":[],"set":[],"ci":false}),
        6 | 7 => {
            let mut set = Vec::new();
            for c in [0u32, 10, 32, 38, 60] {
                if r.chance(1, 2) {
                    set.push(c);
                }
            }
            json!({"op":"pop_except","s":[],"set":set,"ci":false})
        },
        _ => {
            let flat = flat_of(q);
            let n = 1 + r.below(5);
            let mut p: Vec<char> = flat.iter().take(n).cloned().collect();
            if p.is_empty() || r.chance(1, 5) {
                p = rand_str(r, 3).chars().collect();
                if p.is_empty() {
                    p.push('a');
                }
            }
            if r.chance(1, 3) {
                p = p
                    .iter()
                    .map(|c| if c.is_ascii_lowercase() { c.to_ascii_uppercase() } else { c.to_ascii_lowercase() })
                    .collect();
            }
            if r.chance(1, 4) {
                p.push(*r.pick(ALPHA));
            }
            if r.chance(1, 8) && p.len() > 1 {
                let i = r.below(p.len());
                p[i] = *r.pick(ALPHA);
            }
            let s: String = p.into_iter().collect();
            json!({"op":"eat","s":cps(&s),"set":[],"ci":r.chance(1,2)})
        },
    }
}

pub fn main(args: &Args) {
    let mut out = Out::new();
    if args.has("replay") {
        // input: either TLC-exported cases {"pre":…,"ops":[…]} or recorded trace lines
        let mut q = BufferQueue::default();
        let mut id = 0u64;
        for c in read_cases().iter() {
            if c.get("ops").is_some() {
                id += 1;
                q = reset(&c["pre"], id, &mut out);
                for op in c["ops"].as_array().unwrap() {
                    do_op(&q, op, id, &mut out);
                }
            } else if c["ev"] == "reset" {
                id += 1;
                q = reset(&c["pre"], id, &mut out);
            } else {
                do_op(&q, c, id, &mut out);
            }
        }
    } else {
        let mut r = Rng::new(args.num("seed", 1));
        let n = args.num("n", 100);
        let nops = args.num("ops", 40) as usize;
        for i in 0..n {
            let q = reset(&json!([]), i + 1, &mut out);
            for _ in 0..nops {
                let op = gen_op(&mut r, &q);
                do_op(&q, &op, i + 1, &mut out);
            }
        }
    }
    out.flush();
}
