SPECIFICATION Spec
CONSTANTS
  MaxMoves = 3
  Scripting = FALSE
  DoExport = TRUE
  Strs <- MC_StrsAll
INVARIANTS RoundTrip Export
CHECK_DEADLOCK FALSE
