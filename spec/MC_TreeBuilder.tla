--------------------------- MODULE MC_TreeBuilder ---------------------------
(***************************************************************************)
(* Model checking of the L0 tree construction itself: every token sequence *)
(* of at most MaxToks tokens over a vocabulary (chosen by the configuration *)
(* from the table below), as a document or as a fragment under one of a few *)
(* context elements, followed by EOF.  In every reachable state the        *)
(* structural invariants of the algorithm are checked (the tree is a       *)
(* consistent forest, the stack of open elements holds distinct elements   *)
(* whose first is the root html element, list and stack entries exist,     *)
(* template modes match templates); at EOF a document has the canonical    *)
(* skeleton (C06) and text is merged (no empty / adjacent text nodes).     *)
(* Every explored behaviour is exported (REPLAY) and fed, token by token,  *)
(* to the real tree builder; Trace_Tree then compares the results.         *)
(***************************************************************************)
EXTENDS TreeCanon, TLC, Json

CONSTANTS MaxToks, VocabIdx, CtxIdx, Scripting, DoExport

St(n) == [k |-> "start", name |-> n, attrs |-> <<>>, sc |-> FALSE, dup |-> FALSE]
StA(n, a, v) == [k |-> "start", name |-> n, attrs |-> <<[n |-> a, v |-> v]>>, sc |-> FALSE, dup |-> FALSE]
En(n) == [k |-> "end", name |-> n, attrs |-> <<>>, sc |-> FALSE, dup |-> FALSE]
Ch(s) == [k |-> "chars", s |-> s]
N_i == <<105>>
N_span == <<115, 112, 97, 110>>
N_ul == <<117, 108>>
N_b == <<98>>
N_id == <<105, 100>>
N_g == <<103>>

Vocab == <<
  St(N_a), St(N_b), St(N_p), St(N_div), En(N_a), En(N_b), En(N_p), En(N_div), Ch(<<120>>), Ch(<<32>>),                 \* 1-10
  St(N_table), St(N_tr), St(N_td), St(N_caption), St(N_colgroup), St(N_tbody), En(N_table), En(N_td), En(N_tr), St(N_col),   \* 11-20
  St(N_template), En(N_template), St(N_svg), St(N_math), St(N_mi), St(N_foreignObject), En(N_svg), En(N_math), St(N_desc), St(N_annotation_xml), \* 21-30
  St(N_html), St(N_head), St(N_body), St(N_frameset), En(N_html), En(N_head), En(N_body), En(N_frameset), St(N_frame), St(N_noframes), \* 31-40
  St(N_select), St(N_option), St(N_optgroup), En(N_select), En(N_option), St(N_hr), St(N_input), St(N_button), En(N_button), St(N_form), \* 41-50
  En(N_form), St(N_li), St(N_dd), St(N_dt), St(N_ul), En(N_li), En(N_ul), St(N_h1), En(N_h1), St(N_nobr),                     \* 51-60
  En(N_nobr), St(N_i), En(N_i), StA(N_b, N_id, <<49>>), St(N_applet), En(N_applet), St(N_br), En(N_br), St(N_image), St(N_span),   \* 61-70
  [k |-> "comment", s |-> <<99>>], [k |-> "doctype", name |-> <<N_html>>, pub |-> <<>>, sys |-> <<>>, fq |-> FALSE], [k |-> "nul"],
  St(N_meta), St(N_link), St(N_base), En(N_br), St(N_g), StA(N_font, N_color, <<114>>), St(N_font),                           \* 71-80
  En(N_noframes), St(N_title), En(N_title), St(N_script), En(N_script), St(N_textarea), En(N_textarea), Ch(<<10>>), St(N_pre), St(N_style),  \* 81-90
  En(N_style), St(N_noscript), En(N_noscript), St(N_iframe), En(N_iframe), St(N_xmp), En(N_xmp), Ch(<<10, 120>>) >>            \* 91-98

Ctxs == << [mode |-> "doc"],
           [mode |-> "frag", ns |-> "html", local |-> N_div],
           [mode |-> "frag", ns |-> "html", local |-> N_table],
           [mode |-> "frag", ns |-> "html", local |-> N_tr],
           [mode |-> "frag", ns |-> "html", local |-> N_template],
           [mode |-> "frag", ns |-> "svg", local |-> N_svg],
           [mode |-> "frag", ns |-> "mathml", local |-> N_math],
           [mode |-> "frag", ns |-> "html", local |-> N_select],
           [mode |-> "frag", ns |-> "html", local |-> N_html] >>

VARIABLES ctx, toks, t
vars == <<ctx, toks, t>>

StartOf(c) == IF Ctxs[c].mode = "doc" THEN TbInit(Scripting, FALSE, "no")
              ELSE FragmentInit(Scripting, "no", [ns |-> Ctxs[c].ns, local |-> Ctxs[c].local, attrs |-> <<>>])

Init == /\ ctx \in CtxIdx
        /\ toks = <<>>
        /\ t = StartOf(ctx)

\* what the tokenizer can deliver: inside a raw text / RCDATA element (the "text" mode) only characters
\* and the element's own end tag
Deliverable(tok) == t.mode # "Text" \/ tok.k = "chars" \/ (tok.k = "end" /\ CurIs(t, tok.name))
Feed(i) == /\ ~t.stopped /\ Len(toks) < MaxToks
           /\ Deliverable(Vocab[i])
           /\ toks' = Append(toks, i)
           /\ t' = ProcToken(t, Vocab[i])
           /\ UNCHANGED ctx
Eof == /\ ~t.stopped
       /\ toks' = Append(toks, 0)
       /\ t' = ProcToken(t, [k |-> "eof"])
       /\ UNCHANGED ctx
Next == (\E i \in VocabIdx : Feed(i)) \/ Eof
Spec == Init /\ [][Next]_vars

-----------------------------------------------------------------------------
Structure == StructureOk(t)
Ark == ArkOk(t)
TemplateModes == TemplateModesOk(t)
AtEof == DocEofOk(t)
FragEof == FragEofOk(t)

TokOut(i) == IF i = 0 THEN [k |-> "eof"] ELSE Vocab[i]
Export == (DoExport /\ t.stopped) =>
             PrintT(<<"REPLAY", ToJson([mode |-> Ctxs[ctx].mode,
                                        ctx |-> IF Ctxs[ctx].mode = "doc" THEN [ns |-> "html", local |-> N_div] ELSE [ns |-> Ctxs[ctx].ns, local |-> Ctxs[ctx].local],
                                        scripting |-> Scripting,
                                        toks |-> [j \in DOMAIN toks |-> TokOut(toks[j])]])>>)
=============================================================================
