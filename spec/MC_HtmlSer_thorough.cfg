SPECIFICATION Spec
CONSTANTS
  MaxLen = 4
  DoExport = TRUE
INVARIANTS TextSafe AttrSafe Export
CHECK_DEADLOCK FALSE
