----------------------------- MODULE Trace_Utf8 -----------------------------
(***************************************************************************)
(* Judge of recorded Utf8LossyDecoder runs: concatenated pieces and the    *)
(* number of error() calls must equal the L0 lossy decode of the           *)
(* concatenated chunks; the same execution must also be a behaviour of the *)
(* L1 decoder model (fidelity; a mismatch there alone is MODEL-DRIFT).     *)
(* `std` (String::from_utf8_lossy on the same bytes) cross-checks the      *)
(* transcription of Table 3-7: a disagreement is a specification error.    *)
(***************************************************************************)
EXTENDS Utf8, TLC, Json, IOUtils

Rec == ndJsonDeserialize(IOEnv.TRACE)
VARIABLES l
Init == l = 1

RECURSIVE L1Run(_, _, _)
L1Run(st, chunks, i) == IF i > Len(chunks) THEN L1Finish(st) ELSE L1Run(L1Process(st, chunks[i]), chunks, i + 1)

Judge(e) ==
    LET all == Flatten(e.chunks)
        ref == Lossy(all)
        got == Flatten(e.pieces)
        l1 == L1Run(L1Init, e.chunks, 1) IN
    /\ (ref.cps = e.std \/ (PrintT(<<"SPEC-ERROR", l, e.case>>) /\ FALSE))
    /\ ((l1.out = got /\ l1.nerr = e.nerr) \/ PrintT(<<"MODEL-DRIFT", l, e.case>>))
    /\ e.panic = <<>>
    /\ got = ref.cps
    /\ e.nerr = ref.nerr
    /\ \A i \in DOMAIN e.pieces : e.pieces[i] # <<>>      \* never an empty tendril to the sink

Next == /\ l <= Len(Rec)
        /\ l' = l + 1
        /\ (Judge(Rec[l]) \/ PrintT(<<"REJECT", l, Rec[l].case>>))

Spec == Init /\ [][Next]_l
AllConsumed == \/ TLCGet("stats").diameter = Len(Rec) + 1
               \/ PrintT(<<"NOT-CONSUMED", TLCGet("stats").diameter, Len(Rec)>>) /\ FALSE
=============================================================================
