------------------------------ MODULE MC_Lines ------------------------------
(***************************************************************************)
(* Spec-level consistency of the C09 judge: Breaks (LF, CR, CRLF counted   *)
(* once, on the raw input) agrees with counting LF in the normalised       *)
(* stream, for every raw string over {CR, LF, x} and every prefix -- this  *)
(* is the statement "regardless of which states the line breaks were read  *)
(* in and of chunking" at the level of the reference: the count depends on *)
(* the consumed prefix only.                                               *)
(***************************************************************************)
EXTENDS Preprocess, TLC

CONSTANTS MaxLen
VARIABLES raw
Init == raw = <<>>
Next == Len(raw) < MaxLen /\ \E c \in {CR, LF, 120} : raw' = Append(raw, c)
Spec == Init /\ [][Next]_raw

CountLF(s) == LET RECURSIVE F(_, _) F(i, acc) == IF i > Len(s) THEN acc ELSE F(i + 1, IF s[i] = LF THEN acc + 1 ELSE acc) IN F(1, 0)

\* whole input
WholeAgrees == Breaks(raw, Len(raw)) = CountLF(Normalize(raw))
\* every prefix: equal to the normalised prefix's LF count (a prefix ending in CR has seen that break)
PrefixAgrees == \A n \in 0..Len(raw) : Breaks(raw, n) = CountLF(Normalize(Take(raw, n)))
Monotone == \A n \in 1..Len(raw) : Breaks(raw, n - 1) <= Breaks(raw, n) /\ Breaks(raw, n) <= Breaks(raw, n - 1) + 1
=============================================================================
