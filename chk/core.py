"""Orchestrator core: build the harness from /repo's working tree, run TLC (model checking and
trace validation), collect REPLAY exports and REJECT verdicts, match known findings, write
evidence.  Python standard library only.  Verdict rule (DESIGN P3): a VIOLATION is always a
recorded execution of the real code rejected by a TLA+ trace specification."""
import json, os, re, shutil, subprocess, sys, time, hashlib, concurrent.futures as cf

ROOT = os.path.dirname(os.path.dirname(os.path.abspath(__file__)))
# the repository under verification.  /repo unless VERIF_REPO names another checkout (development aid: lets a long background
# sweep run against a frozen copy while /repo is being worked on); registered commands never set it.
REPO = os.environ.get("VERIF_REPO", "/repo")
SPEC = os.path.join(ROOT, "spec")
HARNESS = os.path.join(ROOT, "harness")
HARNESS_SRC = HARNESS
WORK = os.path.join(ROOT, "work")
EVID = os.path.join(ROOT, "evidence")
VH = os.path.join(HARNESS, "target", "release", "vh")
JAR = "/opt/veriftools/tla/tla2tools.jar:/opt/veriftools/tla/CommunityModules-deps.jar"
NCPU = os.cpu_count() or 4


class ToolError(Exception):
    pass


def log(*a):
    print(*a, flush=True)


def ensure_dirs():
    for d in (WORK, EVID, os.path.join(WORK, "tlc"), os.path.join(WORK, "logs"),
              os.path.join(WORK, "replays"), os.path.join(WORK, "traces")):
        os.makedirs(d, exist_ok=True)


_built = False


def build_harness():
    """cargo build the harness against the repository's current working tree (hooks enabled through
    harness/.cargo/config.toml).  Always invoked: cargo decides what is stale."""
    global _built, HARNESS, VH
    if _built:
        return
    ensure_dirs()
    if REPO != "/repo":
        # a private copy of the harness crate whose path dependencies point at that checkout
        alt = os.path.join(WORK, "harness-alt")
        os.makedirs(alt, exist_ok=True)
        subprocess.run(["rsync", "-a", "--delete", "--exclude", "target", "--exclude", "Cargo.lock", HARNESS_SRC + "/", alt + "/"], check=True)
        with open(os.path.join(alt, "Cargo.toml")) as f:
            toml = f.read()
        with open(os.path.join(alt, "Cargo.toml"), "w") as f:
            f.write(toml.replace('"/repo/', '"%s/' % REPO))
        HARNESS = alt
        VH = os.path.join(alt, "target", "release", "vh")
    lock = os.path.join(HARNESS, "Cargo.lock")
    if not os.path.exists(lock):
        for cand in (os.path.join(REPO, "Cargo.lock"), os.path.join(HARNESS_SRC, "Cargo.lock"), "/repo/Cargo.lock"):
            if os.path.exists(cand):
                shutil.copy(cand, lock)
                break
    env = dict(os.environ, CARGO_NET_OFFLINE="true")
    t0 = time.time()
    p = subprocess.run(["cargo", "build", "--release", "--offline"], cwd=HARNESS, env=env,
                       stdout=subprocess.PIPE, stderr=subprocess.STDOUT, text=True)
    if p.returncode != 0:
        sys.stdout.write(p.stdout[-6000:])
        raise ToolError("harness build failed")
    log("[build] harness built in %.1fs" % (time.time() - t0))
    _built = True


def run_harness(args, out_path, stdin_path=None, timeout=600, stdin_text=None):
    """Run the harness; stdout -> out_path.  Returns (returncode, stderr_tail).  A crash or
    timeout of the harness process is data for the caller (C04), not an exception."""
    build_harness()
    # the trace goes to VH_OUT; the child's stdout (anything the code under test prints) is discarded
    env = dict(os.environ, VH_OUT=out_path)
    if True:
        stdin = open(stdin_path, "rb") if stdin_path else (subprocess.PIPE if stdin_text is not None else subprocess.DEVNULL)
        try:
            p = subprocess.run([VH] + [str(a) for a in args], stdin=stdin if stdin_text is None else None,
                               input=stdin_text.encode() if stdin_text is not None else None, env=env,
                               stdout=subprocess.DEVNULL, stderr=subprocess.PIPE, timeout=timeout)
            rc, err = p.returncode, p.stderr.decode(errors="replace")[-2000:]
        except subprocess.TimeoutExpired:
            rc, err = 124, "timeout"
        finally:
            if stdin_path:
                stdin.close()
    return rc, err


def _java(xmx, extra_props=()):
    return ["java", "-Xss1g", "-XX:+UseParallelGC", "-Xmx%s" % xmx] + list(extra_props) + ["-cp", JAR, "tlc2.TLC"]


_states_re = re.compile(r"(\d+) states generated, (\d+) distinct states found")
_cov_re = re.compile(r"^<(\w+) line (\d+), col (\d+) .* of module (\w+)>: (\d+):(\d+)")


def parse_replay_line(line):
    """<<"REPLAY", "...json with TLA+ string escapes...">>  ->  python object"""
    i = line.find('"REPLAY", "')
    if i < 0:
        return None
    body = line[i + len('"REPLAY", '):].rstrip()
    if body.endswith(">>"):
        body = body[:-2]
    return json.loads(json.loads(body))


TIER = "quick"       # set by the entry point


def _cap_xmx(xmx):
    """quick-tier model checking runs are small; a large -Xmx only lets the JVM's heap balloon before it collects"""
    if TIER == "quick" and xmx.endswith("g") and int(xmx[:-1]) > 8:
        return "8g"
    return xmx


def tlc_mc(name, module, cfg, workers=None, timeout=1800, xmx="8g", env=None, replay_out=None,
           coverage=False, simulate=None, depth=None):
    """Model-check `module` with `cfg` (files in spec/).  REPLAY lines go to replay_out (ndjson).
    Returns dict(ok, generated, distinct, coverage{action:count}, error, log, replays)."""
    xmx = _cap_xmx(xmx)
    ensure_dirs()
    meta = os.path.join(WORK, "tlc", name)
    shutil.rmtree(meta, ignore_errors=True)
    logp = os.path.join(WORK, "logs", name + ".log")
    cmd = _java(xmx) + ["-workers", str(workers or NCPU), "-metadir", meta, "-cleanup", "-noGenerateSpecTE"]
    if coverage:
        cmd += ["-coverage", "1"]
    if simulate:
        cmd += ["-simulate", "num=%d" % simulate]
        if depth:
            cmd += ["-depth", str(depth)]
    cmd += ["-config", cfg, module]
    e = dict(os.environ)
    if env:
        e.update({k: str(v) for k, v in env.items()})
    t0 = time.time()
    res = dict(ok=False, generated=0, distinct=0, coverage={}, error=None, log=logp, replays=0, wall_s=0.0)
    rep = open(replay_out, "w") if replay_out else None
    try:
        with open(logp, "w") as lf:
            p = subprocess.Popen(["timeout", str(timeout)] + cmd, cwd=SPEC, env=e, stdout=subprocess.PIPE,
                                 stderr=subprocess.STDOUT, text=True, errors="replace")
            errlines = []
            for line in p.stdout:
                if '"REPLAY"' in line:
                    if rep:
                        try:
                            rep.write(json.dumps(parse_replay_line(line), separators=(",", ":")) + "\n")
                            res["replays"] += 1
                        except Exception as ex:   # malformed export is a tool problem
                            errlines.append("bad REPLAY line: %r" % ex)
                    continue
                lf.write(line)
                m = _states_re.search(line)
                if m:
                    res["generated"], res["distinct"] = int(m.group(1)), int(m.group(2))
                m = _cov_re.match(line)
                if m:
                    res["coverage"][m.group(1)] = res["coverage"].get(m.group(1), 0) + int(m.group(6))
                if line.startswith("Error:") or "is violated" in line or "Exception" in line:
                    errlines.append(line.strip())
            rc = p.wait()
    finally:
        if rep:
            rep.close()
        shutil.rmtree(meta, ignore_errors=True)
    res["wall_s"] = round(time.time() - t0, 1)
    if rc == 124:
        res["error"] = "timeout after %ss" % timeout
    elif errlines:
        res["error"] = "; ".join(errlines[:5])
    elif rc != 0:
        res["error"] = "tlc exit %d" % rc
    else:
        res["ok"] = True
    return res


_rej_re = re.compile(r'<<"REJECT", (\d+), (\d+)')
_tag_re = re.compile(r'<<"(MODEL-DRIFT|SPEC-ERROR|UNCOVERED|UNDECIDED)", (\d+), (\d+)')


def tlc_trace(name, module, cfg, trace, timeout=1800, xmx="3g", env=None):
    # up to 16 of these run side by side: keep each JVM's heap ceiling low (traces arrive in parts of PART_BYTES)
    if xmx.endswith("g") and int(xmx[:-1]) > 3:
        xmx = "3g"
    """Validate an ndjson trace with a Trace_* specification.  Returns dict(ok, rejects=[(line, case)],
    events, error).  ok means TLC ran to completion and consumed every line; rejects are verdicts."""
    ensure_dirs()
    meta = os.path.join(WORK, "tlc", name)
    shutil.rmtree(meta, ignore_errors=True)
    logp = os.path.join(WORK, "logs", name + ".log")
    cmd = _java(xmx, ["-Dtlc2.tool.queue.IStateQueue=StateDeque"]) + [
        "-workers", "1", "-metadir", meta, "-cleanup", "-noGenerateSpecTE", "-config", cfg, module]
    e = dict(os.environ, TRACE=trace)
    if env:
        e.update({k: str(v) for k, v in env.items()})
    res = dict(ok=False, rejects=[], events=0, error=None, log=logp, tags={})
    t0 = time.time()
    try:
        p = subprocess.run(["timeout", str(timeout)] + cmd, cwd=SPEC, env=e, stdout=subprocess.PIPE,
                           stderr=subprocess.STDOUT, text=True, errors="replace")
    finally:
        shutil.rmtree(meta, ignore_errors=True)
    out = p.stdout
    with open(logp, "w") as lf:
        lf.write(out)
    errlines = []
    for line in out.splitlines():
        m = _rej_re.search(line)
        if m:
            res["rejects"].append((int(m.group(1)), int(m.group(2))))
            continue
        m = _tag_re.search(line)
        if m:
            res["tags"].setdefault(m.group(1), []).append(int(m.group(3)))
            continue
        m = _states_re.search(line)
        if m:
            res["events"] = int(m.group(2)) - 1
        if line.startswith("Error:") or "NOT-CONSUMED" in line or "Exception" in line:
            errlines.append(line.strip())
    res["wall_s"] = round(time.time() - t0, 1)
    if p.returncode == 124:
        res["error"] = "timeout after %ss" % timeout
    elif errlines:
        res["error"] = "; ".join(errlines[:5])
    elif p.returncode != 0:
        res["error"] = "tlc exit %d" % p.returncode
    else:
        res["ok"] = True
    return res


def apalache_check(name, module, init, inv, length, timeout=900):
    """One Apalache run (symbolic, unbounded data) on spec/apalache/<module>: dict(ok, outcome, wall_s, log).  ok = the
    checker reported NoError; a violated invariant gives outcome 'Error'; anything else is a tool problem."""
    ensure_dirs()
    logp = os.path.join(WORK, "logs", name + ".log")
    outdir = os.path.join(WORK, "apalache", name)
    shutil.rmtree(outdir, ignore_errors=True)
    t0 = time.time()
    p = subprocess.run(["timeout", str(timeout), "apalache-mc", "check", "--init=" + init, "--inv=" + inv, "--length=%d" % length,
                        "--out-dir=" + outdir, module], cwd=os.path.join(SPEC, "apalache"), stdout=subprocess.PIPE, stderr=subprocess.STDOUT,
                       text=True, errors="replace")
    with open(logp, "w") as f:
        f.write(p.stdout)
    shutil.rmtree(outdir, ignore_errors=True)
    m = re.search(r"The outcome is: (\w+)", p.stdout)
    outcome = m.group(1) if m else ("timeout" if p.returncode == 124 else "unknown")
    return dict(ok=(outcome == "NoError"), outcome=outcome, wall_s=round(time.time() - t0, 1), log=logp)


def parallel(jobs, max_workers=None):
    """jobs: list of (callable, args, kwargs).  Returns results in order."""
    with cf.ThreadPoolExecutor(max_workers=max_workers or NCPU) as ex:
        futs = [ex.submit(f, *a, **k) for (f, a, k) in jobs]
        return [f.result() for f in futs]


def read_ndjson(path):
    with open(path) as f:
        return [json.loads(l) for l in f if l.strip()]


PART_BYTES = 24 * 1024 * 1024


def split_trace(path, key="case"):
    """[path] if the file is small; otherwise files of about PART_BYTES each, cut only where the case key changes."""
    try:
        if os.path.getsize(path) <= PART_BYTES * 3 // 2:
            return [path]
    except OSError:
        return [path]
    pat = re.compile(r'"%s":\s*(\d+)' % re.escape(key))
    parts, out, size, last = [], None, 0, None
    with open(path) as f:
        for l in f:
            m = pat.search(l)
            cur = m.group(1) if m else last
            if out is None or (size >= PART_BYTES and cur != last):
                if out:
                    out.close()
                parts.append("%s.q%d" % (path, len(parts)))
                out = open(parts[-1], "w")
                size = 0
            out.write(l)
            size += len(l)
            last = cur
    if out:
        out.close()
    return parts


def cases_lines(path, case_ids, key="case"):
    """Raw lines of several cases of a trace file, in one pass: {case_id: [lines]}."""
    want = set(case_ids)
    out = {c: [] for c in want}
    with open(path) as f:
        for l in f:
            if not l.strip():
                continue
            try:
                c = json.loads(l).get(key)
            except Exception:
                continue
            if c in want:
                out[c].append(l.rstrip("\n"))
    return out


def case_lines(path, case_id, key="case"):
    return cases_lines(path, [case_id], key)[case_id]


def save_replay(prop, lines, meta):
    """Write one failing case as a replay file; returns its path."""
    d = os.path.join(WORK, "replays", prop)
    os.makedirs(d, exist_ok=True)
    h = hashlib.sha1("\n".join(lines).encode()).hexdigest()[:12]
    p = os.path.join(d, "%s.ndjson" % h)
    with open(p, "w") as f:
        f.write(json.dumps(dict(meta, ev="replay_meta", property=prop)) + "\n")
        for l in lines:
            f.write(l + "\n")
    return p


def load_replay(path):
    meta, lines = {}, []
    with open(path) as f:
        for l in f:
            if not l.strip():
                continue
            o = json.loads(l)
            if o.get("ev") == "replay_meta":
                meta = o
            else:
                lines.append(l.rstrip("\n"))
    return meta, lines


def repo_rev():
    try:
        r = subprocess.run(["git", "-C", REPO, "rev-parse", "HEAD"], stdout=subprocess.PIPE, text=True).stdout.strip()
        d = subprocess.run(["git", "-C", REPO, "status", "--porcelain"], stdout=subprocess.PIPE, text=True).stdout.strip()
        return r + ("+dirty" if d else "")
    except Exception:
        return "unknown"


# ---------------------------------------------------------------------------------------------
# known findings

def load_findings():
    p = os.path.join(ROOT, "known_findings.json")
    if not os.path.exists(p):
        return []
    with open(p) as f:
        return json.load(f).get("findings", [])


class Verdicts:
    """Collects failing cases of one check run, separates known findings from violations."""

    def __init__(self, prop):
        self.prop = prop
        self.findings = [f for f in load_findings() if f["property"] == prop and f.get("status", "open") == "open"]
        self.violations = []      # (replay path, summary)
        self.known = {}           # key -> count
        self.nviol = 0
        self.notes = []

    def failing_case(self, lines, meta, classify):
        """lines: raw ndjson lines of the failing case; classify(finding, objs) -> bool."""
        objs = [json.loads(l) for l in lines]
        for f in self.findings:
            try:
                if classify(f, objs):
                    self.known[f["key"]] = self.known.get(f["key"], 0) + 1
                    return
            except Exception as ex:
                self.notes.append("classifier error for %s: %r" % (f["key"], ex))
        self.nviol += 1
        if len(self.violations) < 25:
            path = save_replay(self.prop, lines, meta)
            self.violations.append(path)

    def report(self):
        for f in self.findings:
            if f["key"] in self.known:
                log("KNOWN-FINDING: property=%s %s [%s; %d case(s) this run]" % (self.prop, f["what"], f["key"], self.known[f["key"]]))
        seen = set()
        for p in self.violations:
            if p not in seen:
                seen.add(p)
                if len(seen) <= 5:
                    log("VIOLATION property=%s replay=%s" % (self.prop, p))
        if self.nviol > len(seen):
            log("(%d violating cases in total; replay files written for the first %d)" % (self.nviol, len(seen)))
        return self.nviol


def write_evidence(prop, tier, seed, coverage, assumptions, wall_s, violations):
    ensure_dirs()
    ev = dict(property_id=prop, tier=tier, seed=int(seed), level="model_checking", coverage=coverage,
              assumptions=assumptions, wall_s=round(wall_s, 1), violations=int(violations),
              repo_rev=repo_rev())
    with open(os.path.join(EVID, "%s.json" % prop), "w") as f:
        json.dump(ev, f, indent=1, sort_keys=True)
        f.write("\n")


# ---------------------------------------------------------------------------------------------
# generic pipelines

def split_file(path, parts):
    """Split an ndjson *case* file (one case per line) into `parts` files; returns paths."""
    outs = [open("%s.part%d" % (path, i), "w") for i in range(parts)]
    n = 0
    with open(path) as f:
        for l in f:
            if l.strip():
                outs[n % parts].write(l)
                n += 1
    for o in outs:
        o.close()
    return ["%s.part%d" % (path, i) for i in range(parts)], n


class Run:
    """Bookkeeping of one check invocation."""

    def __init__(self, prop, tier, seed):
        self.prop, self.tier, self.seed = prop, tier, int(seed)
        self.t0 = time.time()
        self.v = Verdicts(prop)
        self.states = 0
        self.transitions = 0
        self.traces = 0          # real-code cases judged by TLC
        self.events = 0
        self.samples = []
        self.mc = []             # per-MC-run summaries
        self.extra = {}
        self.tool_errors = []
        self.assumptions = []
        self.tags = {}
        self.cur_sub = ""

    def add_mc(self, name, res):
        self.mc.append(dict(name=name, generated=res["generated"], distinct=res["distinct"], wall_s=res["wall_s"],
                            replays=res["replays"], coverage=res["coverage"], error=res["error"]))
        self.states += res["distinct"]
        self.transitions += res["generated"]
        if not res["ok"]:
            self.tool_errors.append("%s: %s (see %s)" % (name, res["error"], res["log"]))
        log("[mc] %s: %d distinct / %d generated states, %d replay exports, %.1fs%s" % (
            name, res["distinct"], res["generated"], res["replays"], res["wall_s"],
            "" if res["ok"] else "  ERROR " + str(res["error"])))

    def validate(self, name, module, cfg, trace, classify, env=None, timeout=1800, case_key="case", xmx="3g"):
        """TLC-judge one trace file; route rejected cases to verdicts.  Returns #cases rejected.
        TLC holds the whole deserialized trace in memory, so a large file is judged in parts cut at case boundaries."""
        parts = split_trace(trace, case_key)
        rejects = []
        try:
            for k, part in enumerate(parts):
                r = tlc_trace(name if len(parts) == 1 else "%s.p%d" % (name, k), module, cfg, part, timeout=timeout, env=env, xmx=xmx)
                if not r["ok"]:
                    self.tool_errors.append("%s: %s (see %s)" % (name, r["error"], r["log"]))
                    return 0
                self.events += r["events"]
                for tag, cases in r["tags"].items():
                    self.tags[tag] = self.tags.get(tag, 0) + len(set(cases))
                    if tag == "SPEC-ERROR":
                        self.tool_errors.append("%s: specification cross-check failed on case(s) %s of %s" % (name, sorted(set(cases))[:5], trace))
                rejects += r["rejects"]
        finally:
            for part in parts:
                if part != trace:
                    try:
                        os.remove(part)
                    except OSError:
                        pass
        r = dict(rejects=rejects)
        bad_cases = sorted(set(c for (_, c) in r["rejects"]))
        # every rejected case is classified (known finding or not); replay files are written for
        # the first unknown ones, the rest are only counted
        rev = repo_rev()
        all_lines = cases_lines(trace, bad_cases, case_key) if bad_cases else {}
        for c in bad_cases:
            self.v.failing_case(all_lines[c], dict(tier=self.tier, seed=self.seed, spec=module, cfg=cfg, repo=rev,
                                                   trace=os.path.basename(trace), sub=self.cur_sub), classify)
        return len(bad_cases)

    def gen_validate(self, label, harness_args, module, cfg, shards, classify, count_cases, env=None,
                     timeout=1800, stdin_files=None, xmx="3g", case_key="case", crash_is_violation=False, also=()):
        # also: further (module, cfg) judges applied to the same recorded trace
        """Run the harness `shards` times (seed varies per shard, or one stdin file per shard) and
        validate every trace in parallel."""
        build_harness()
        self.cur_sub = str(harness_args[0]) if harness_args else ""

        def one(i):
            tr = os.path.join(WORK, "traces", "%s-%s-%d.ndjson" % (self.prop, label, i))
            args = list(harness_args) + ["--seed", str(self.seed * 1000 + i), "--shard", str(i), "--shards", str(shards)]
            rc, err = run_harness(args, tr, stdin_path=stdin_files[i] if stdin_files else None, timeout=timeout)
            if rc != 0:
                if crash_is_violation:
                    # the harness died (abort, stack overflow, watchdog): the case it was running is in <trace>.current
                    cur = tr + ".current"
                    lines = []
                    if os.path.exists(cur):
                        with open(cur) as f:
                            lines = [l.rstrip("\n") for l in f if l.strip()]
                    self.v.failing_case(lines or ['{"ev":"crash","note":"no current case recorded"}'],
                                        dict(tier=self.tier, seed=self.seed, spec=module, cfg=cfg, repo=repo_rev(), crash="exit %d" % rc,
                                             harness_args=[str(a) for a in harness_args]), classify)
                    return ("crash", i, rc, err, tr, 0)
                return ("harness", i, rc, err, tr, 0)
            n = count_cases(tr)
            nte = len(self.tool_errors)
            bad = self.validate("%s-%s-%d" % (self.prop, label, i), module, cfg, tr, classify, env=env, timeout=timeout, xmx=xmx,
                                case_key=case_key)
            for (m2, c2) in also:
                bad += self.validate("%s-%s-%d-%s" % (self.prop, label, i, m2[:-4]), m2, c2, tr, classify, env=env, timeout=timeout,
                                     xmx=xmx, case_key=case_key)
            sample = None
            try:
                with open(tr) as f:
                    sample = [json.loads(next(f)) for _ in range(3)]
            except Exception:
                pass
            # recorded traces are large; once judged (rejected cases have been copied into replay files) they are removed
            if not os.environ.get("VERIF_KEEP_TRACES") and len(self.tool_errors) == nte:
                try:
                    os.remove(tr)
                except OSError:
                    pass
            return ("ok", i, 0, "", tr, n, bad, sample)

        t_start = time.time()
        results = parallel([(one, (i,), {}) for i in range(shards)])
        total = 0
        for r in results:
            if r[0] == "crash":
                log("[crash] harness %s shard %d exited %d" % (label, r[1], r[2]))
            elif r[0] == "harness":
                self.tool_errors.append("harness %s shard %d exited %d: %s" % (label, r[1], r[2], r[3][-300:]))
            else:
                total += r[5]
        self.traces += total
        # keep a sample
        for r in results:
            if r[0] == "ok" and len(self.samples) < 6 and r[7]:
                self.samples.append({"source": label, "events": r[7]})
                break
        log("[trace] %s: %d real-code cases judged by %s%s (%.0fs)" % (label, total, module, "".join(" + " + m for (m, _) in also),
                                                                        time.time() - t_start))
        return total

    def finish(self, rule, extra_cov=None, exhaustive=False, write=True):
        nviol = self.v.report()
        cov = dict(states=max(self.states, 0), transitions=max(self.transitions, 0),
                   traces_validated_against_impl=self.traces, samples=self.samples or ["(no sample)"],
                   rule=rule,
                   trace_events=self.events, model_checking_runs=self.mc, exhaustive=exhaustive,
                   known_findings_seen=self.v.known, tool_errors=self.tool_errors, notes=self.v.notes,
                   model_drift=self.tags.get("MODEL-DRIFT", 0), undecided=self.tags.get("UNDECIDED", 0),
                   uncovered=self.tags.get("UNCOVERED", 0))
        if extra_cov:
            cov.update(extra_cov)
        cov.update(self.extra)
        if write:
            write_evidence(self.prop, self.tier, self.seed, cov, self.assumptions, time.time() - self.t0, nviol)
        for te in self.tool_errors:
            log("TOOL-ERROR: " + te)
        for tag in ("MODEL-DRIFT", "UNDECIDED", "UNCOVERED"):
            if self.tags.get(tag):
                log("%s: %d case(s) (reported, not a verdict)" % (tag, self.tags[tag]))
        if nviol:
            return 1
        if self.tool_errors:
            return 2
        log("[ok] %s %s: held on everything explored (%.0fs)" % (self.prop, self.tier, time.time() - self.t0))
        return 0


def count_resets(path):
    n = 0
    with open(path) as f:
        for l in f:
            if '"ev":"reset"' in l:
                n += 1
    return n


def count_lines(path):
    n = 0
    with open(path) as f:
        for l in f:
            if l.strip():
                n += 1
    return n
