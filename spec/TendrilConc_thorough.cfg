SPECIFICATION Spec
CONSTANTS
  Threads = {t1, t2, t3}
  MaxViews = 6
  DestroyWhenOldIs = 1
INVARIANTS NoUseAfterFree DestroyedOnce RefcountIsViews NothingLeft
CHECK_DEADLOCK FALSE
