SPECIFICATION Spec
CONSTANTS
  MaxEvents = 4
  Defects = {"decl_before_attrs"}
INVARIANT EveryUsedPrefixDeclared
CHECK_DEADLOCK FALSE
