SPECIFICATION Spec
CONSTANTS
  MaxToks = 4
  VocabIdx = {21, 22, 4, 13, 12, 20, 9, 11, 17, 33, 32, 31, 34, 2, 6}
  CtxIdx = {1, 5}
  Scripting = TRUE
  DoExport = TRUE
INVARIANTS Structure Ark TemplateModes AtEof FragEof Export
CHECK_DEADLOCK FALSE
