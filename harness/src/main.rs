//! Verification harness: drives the real crates from /repo and writes ndjson traces that the
//! TLA+ trace specifications in /verif/spec judge.  Rust only drives and projects; no verdicts.
mod alloc;
mod bq;
mod hser;
mod xmlh;
mod tendrilops;
mod meta;
mod rcdomops;
mod parse;
mod parsegen;
mod crgen;
mod tok;
mod tokgen;
mod utf8;
mod util;

#[global_allocator]
static GLOBAL: alloc::Observer = alloc::Observer;

fn main() {
    // panics are data: silence the default hook, messages are captured by util::catch
    std::panic::set_hook(Box::new(|_| {}));
    let argv: Vec<String> = std::env::args().collect();
    if argv.len() < 2 {
        eprintln!("usage: vh <subcommand> [--replay] [--seed N] [--n N] ...");
        std::process::exit(2);
    }
    let args = util::Args(argv[2..].to_vec());
    match argv[1].as_str() {
        "bq" => bq::main(&args),
        "tok" => tok::main(&args),
        "hser" => hser::main(&args),
        "xml" => xmlh::main(&args),
        "tendril" => tendrilops::main(&args),
        "tendril-mt" => tendrilops::main_mt(&args),
        "meta" => meta::main(&args),
        "rcdom" => rcdomops::main(&args),
        "parse" => parsegen::main(&args),
        "charref" => crgen::main(&args),
        "utf8" => utf8::main_utf8(&args),
        "enc" => utf8::main_enc(&args),
        x => {
            eprintln!("unknown subcommand {}", x);
            std::process::exit(2);
        },
    }
}
