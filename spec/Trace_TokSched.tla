---------------------------- MODULE Trace_TokSched ----------------------------
(***************************************************************************)
(* C03 / C08 judge on the tokenizer: a run under any chunking, any option  *)
(* set and any script-pause injections delivers                            *)
(*  (a) the tokens L0 defines for the concatenated input with the injected *)
(*      text spliced in right after the pausing end tag (and with a        *)
(*      leading U+FEFF removed iff discard_bom), and                       *)
(*  (b) exactly the (token, line) sequence and -- for the same options --  *)
(*      the parse errors of the one-piece run of the same build ("ref").   *)
(* Events: "ref" (one piece, default options) then its "var"s.             *)
(***************************************************************************)
EXTENDS Trace_HtmlTokBase

VARIABLES l, ref
Init == l = 1 /\ ref = [group |-> 0]

ExpectedFor(e) ==
    LET raw == Flatten(e.chunks)
        raw1 == IF e.bom THEN StripBom(raw) ELSE raw IN
    StripAll(Tokenize(CfgOf(e), Normalize(raw1)))

\* drop the line annotation of the schedule-independent view
Unline(t) == CASE t.k = "chars" -> [k |-> "chars", s |-> t.s]
               [] t.k = "nul" -> [k |-> "nul"]
               [] t.k \in {"start", "end"} -> [k |-> t.k, name |-> t.name, attrs |-> t.attrs, sc |-> t.sc, dup |-> t.dup]
               [] t.k = "comment" -> [k |-> "comment", s |-> t.s]
               [] t.k = "doctype" -> [k |-> "doctype", name |-> t.name, pub |-> t.pub, sys |-> t.sys, fq |-> t.fq]
               [] OTHER -> [k |-> t.k]

JudgeRef(e) == /\ e.panic = <<>>
               /\ e.toks = ExpectedFor(e)

\* same options as the reference?
SameOpts(e) == e.exact = ref.exact /\ e.bom = ref.bom /\ e.profile = ref.profile

JudgeVar(e) ==
    /\ e.panic = <<>>
    /\ e.group = ref.group
    /\ e.toks = ExpectedFor(e)                                   \* (a)
    /\ (e.bom = ref.bom => e.view.seq = ref.view.seq)            \* (b) tokens with lines
    /\ (SameOpts(e) => e.view.errs = ref.view.errs)              \* (b) parse errors, same options only

Next == /\ l <= Len(Rec)
        /\ l' = l + 1
        /\ LET e == Rec[l] IN
           IF e.ev = "ref" THEN ref' = e /\ (JudgeRef(e) \/ PrintT(<<"REJECT", l, e.group>>))
           ELSE ref' = ref /\ (JudgeVar(e) \/ PrintT(<<"REJECT", l, e.group>>))

Spec == Init /\ [][Next]_<<l, ref>>
AllConsumed == \/ TLCGet("stats").diameter = Len(Rec) + 1
               \/ PrintT(<<"NOT-CONSUMED", TLCGet("stats").diameter, Len(Rec)>>) /\ FALSE
=============================================================================
