-------------------------- MODULE MC_HtmlTokenizer --------------------------
(***************************************************************************)
(* Bounded exploration of the L0 tokenizer: from every start state, last   *)
(* start tag and CDATA answer, every string of at most MaxPieces pieces.   *)
(* Invariants state the well-formedness of what the algorithm delivers     *)
(* (totality is implicit: TLC fails on a missing CASE arm or on Head(<<>>) *)
(* anywhere).  Every explored (configuration, input) is exported as a      *)
(* replay case for the real tokenizer.                                     *)
(***************************************************************************)
EXTENDS HtmlTokenizer, TLC, Json

CONSTANTS MaxPieces, PieceSet, DoExport
VARIABLES cfgv, inp, np

vars == <<cfgv, inp, np>>

S_title == <<116, 105, 116, 108, 101>>
StdReplies ==
    << [k |-> "start", name |-> S_title, r |-> "rcdata"],
       [k |-> "start", name |-> <<116, 101, 120, 116, 97, 114, 101, 97>>, r |-> "rcdata"],
       [k |-> "start", name |-> <<115, 116, 121, 108, 101>>, r |-> "rawtext"],
       [k |-> "start", name |-> <<120, 109, 112>>, r |-> "rawtext"],
       [k |-> "start", name |-> S_script, r |-> "script_data"],
       [k |-> "start", name |-> <<112, 108, 97, 105, 110, 116, 101, 120, 116>>, r |-> "plaintext"],
       [k |-> "end", name |-> S_script, r |-> "script"] >>

MC_Pieces == { <<60>>, <<62>>, <<47>>, <<33>>, <<45>>, <<97>>, <<32>>, <<61>>, <<34>>, <<38>>, <<59>>, <<35>>,
               <<0>>, <<10>>, <<66>>, <<93>>, <<49>>, <<120>>, S_script, S_title, S_doctype,
               <<80, 85, 66, 76, 73, 67>>, S_cdata, <<97, 109, 112>>, <<110, 111, 116, 105, 116>>, <<45, 45>> }
MC_PiecesSmall == { <<60>>, <<62>>, <<47>>, <<33>>, <<45>>, <<97>>, <<32>>, <<61>>, <<34>>, <<38>>, <<59>>, <<35>> }

Cfgs == { [state |-> st, last |-> la, cdata |-> cd, replies |-> StdReplies, inject |-> <<>>] :
            st \in StartStates, la \in {<<>>, <<S_title>>, <<S_script>>}, cd \in BOOLEAN }

Init == cfgv \in Cfgs /\ inp = <<>> /\ np = 0
Next == /\ np < MaxPieces
        /\ \E p \in PieceSet : inp' = inp \o p
        /\ np' = np + 1
        /\ UNCHANGED cfgv
Spec == Init /\ [][Next]_vars

Toks == Tokenize(cfgv, inp)

\* -- what the algorithm delivers is well formed ---------------------------
OneEofLast ==
    LET t == Toks IN /\ t # <<>> /\ t[Len(t)].k = "eof"
                     /\ \A i \in 1..(Len(t) - 1) : t[i].k # "eof"
CharsMerged ==
    LET t == Toks IN \A i \in 1..Len(t) :
        t[i].k = "chars" => (t[i].s # <<>> /\ 0 \notin RangeOf(t[i].s) /\ (i > 1 => t[i - 1].k # "chars"))
TagsWellFormed ==
    LET t == Toks IN \A i \in 1..Len(t) :
        t[i].k \in {"start", "end"} =>
            /\ \A j \in DOMAIN t[i].name : ~IsAsciiUpper(t[i].name[j])
            /\ \A a, b \in DOMAIN t[i].attrs : (t[i].attrs[a].n = t[i].attrs[b].n) => a = b
            /\ \A a \in DOMAIN t[i].attrs : t[i].attrs[a].n # <<>> /\ \A j \in DOMAIN t[i].attrs[a].n : ~IsAsciiUpper(t[i].attrs[a].n[j])
            /\ (cfgv.state = "Data" => t[i].name # <<>> /\ IsAsciiLower(t[i].name[1]))
PositionsMonotone ==
    LET t == Toks
        idx == {i \in 1..Len(t) : t[i].k \notin {"chars", "nul"}} IN
    \A i, j \in idx : i < j => t[i].at <= t[j].at
DoctypeNamesLower ==
    LET t == Toks IN \A i \in 1..Len(t) :
        (t[i].k = "doctype" /\ t[i].name # <<>>) => \A j \in DOMAIN t[i].name[1] : ~IsAsciiUpper(t[i].name[1][j])

Export == DoExport => PrintT(<<"REPLAY", ToJson([state |-> cfgv.state, last |-> cfgv.last, cdata |-> cfgv.cdata,
                                                 rs |-> "std", chunks |-> <<inp>>, exact |-> FALSE, bom |-> FALSE,
                                                 inject |-> <<>>])>>)
=============================================================================
