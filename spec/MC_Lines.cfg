SPECIFICATION Spec
CONSTANTS MaxLen = 8
INVARIANTS WholeAgrees PrefixAgrees Monotone
CHECK_DEADLOCK FALSE
