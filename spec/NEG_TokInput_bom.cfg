SPECIFICATION Spec
CONSTANTS
  Defects = {"bom_flag_never_cleared"}
  MaxPieces = 2
  MaxFeeds = 3
  PieceSet <- MC_PiecesQuick
  StartSet <- MC_StartsQuick
  Injects <- MC_NoInjects
  BomOpts = {TRUE}
INVARIANTS TokensRefine
CHECK_DEADLOCK FALSE
