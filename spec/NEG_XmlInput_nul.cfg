SPECIFICATION Spec
CONSTANTS
  MaxLen = 5
  StopSet <- MC_OldDataSet
  Defects = {}
INVARIANT UniformPreprocessing
CHECK_DEADLOCK FALSE
