"""C17 - XML serializer output re-parses to the same namespaced tree."""
import os
from . import core
from .core import Run, WORK

RULE = ("Documents (the C16 tag sequences explored by MC_XmlNs, and random structured documents with all namespace shapes, "
        "text and attribute values containing & < > quotes, TAB/LF and CR via references, comments and PIs) are parsed by the "
        "real xml5ever, serialized by the real XML serializer and parsed again; TLC judges tree equality (local names, "
        "prefixes, namespace URIs, attribute values, text, comments, PIs; doctype ids excluded).  MC_XmlSer checks the "
        "serializer's declaration bookkeeping model: every prefix used on a tag is declared in scope in the output.")
SPEC, CFG = "Trace_XmlSer.tla", "Trace_XmlSer.cfg"


def classify(f, objs):
    return False


def run(tier, seed, replay=None):
    r = Run("C17", tier, seed)
    core.build_harness()
    if replay:
        meta, lines = core.load_replay(replay)
        import json
        src = os.path.join(WORK, "traces", "C17-replay-in.ndjson")
        with open(src, "w") as f:
            for l in lines:
                f.write(json.dumps({"text": json.loads(l)["text"]}) + "\n")
        r.gen_validate("replay", ["xml", "--mode", "ser", "--replay"], SPEC, CFG, 1, classify, core.count_lines, stdin_files=[src])
        return r.finish(RULE, write=False)
    q = tier == "quick"
    N = core.NCPU
    cases = os.path.join(WORK, "traces", "C17-mc-cases.ndjson")
    res = core.tlc_mc("C17-mc", "MC_XmlNs.tla", "MC_XmlNs.cfg" if q else "MC_XmlNs_thorough.cfg", replay_out=cases, timeout=5000, xmx="24g")
    r.add_mc("MC_XmlNs", res)
    res2 = core.tlc_mc("C17-ser", "MC_XmlSer.tla", "MC_XmlSer.cfg" if q else "MC_XmlSer_thorough.cfg", timeout=5000, xmx="16g")
    r.add_mc("MC_XmlSer", res2)
    if res["ok"]:
        parts, n = core.split_file(cases, N if q else N * 4)
        r.gen_validate("mc-sequences", ["xml", "--mode", "ser", "--replay"], SPEC, CFG, len(parts), classify, core.count_lines,
                       stdin_files=parts, timeout=5000)
    r.gen_validate("random-structures", ["xml", "--mode", "ser", "--n", 2000 if q else 40000], SPEC, CFG, N, classify, core.count_lines, timeout=5000)
    r.assumptions = ["trees are those the parser produces (the serializer API carries no doctype ids; they are excluded)",
                     "the byte output is not compared with a reference serialization: only the re-parse decides"]
    return r.finish(RULE)
