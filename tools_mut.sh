#!/bin/bash
# usage: tools_mut.sh <check-id> <file-in-repo> <python-regex-old> <new>   (dev aid: apply, run check, revert)
id=$1; f=$2; old=$3; new=$4
cd /repo && python3 - "$f" "$old" "$new" <<'PY'
import sys,re
f,old,new=sys.argv[1:4]
s=open(f).read()
assert old in s, "pattern not found"
s=s.replace(old,new,1)
open(f,'w').write(s)
PY
[ $? -ne 0 ] && exit 3
git -C /repo diff --stat | tail -1
cd /verif && ./check $id 2>&1 | grep -E "VIOLATION|KNOWN|TOOL|ok\]|DRIFT" | head -5
git -C /repo checkout -- .
