SPECIFICATION Spec
CONSTANTS
  InlineMax = 8
  MinCap = 16
POSTCONDITION AllConsumed
CHECK_DEADLOCK FALSE
