//! C19 (a): hand a `meta` start tag token with given attributes to the real tree builder (public
//! TokenSink interface) right after `<head>` and log the result.
use crate::parse::*;
use crate::util::*;
use html5ever::tendril::StrTendril;
use html5ever::tokenizer::{Tag, TagKind, Token, TokenSink, TokenSinkResult};
use html5ever::tree_builder::{TreeBuilder, TreeBuilderOpts};
use html5ever::{Attribute, LocalName, QualName};
use markup5ever::ns;
use serde_json::{json, Value};

fn tag(name: &str, attrs: Vec<(String, String)>) -> Token {
    Token::TagToken(Tag {
        kind: TagKind::StartTag,
        name: LocalName::from(name),
        self_closing: false,
        attrs: attrs
            .into_iter()
            .map(|(n, v)| Attribute { name: QualName::new(None, ns!(), LocalName::from(&*n)), value: StrTendril::from_slice(&v) })
            .collect(),
        had_duplicate_attributes: false,
    })
}

fn run(attrs: Vec<(String, String)>, id: u64, out: &mut Out) {
    let ja: Vec<Value> = attrs.iter().map(|(n, v)| json!({"n":cps(n),"v":cps(v)})).collect();
    let sink = MonSink::new(true);
    let tb = TreeBuilder::new(sink, TreeBuilderOpts::default());
    let r = catch(|| {
        let _ = tb.process_token(tag("html", vec![]), 1);
        let _ = tb.process_token(tag("head", vec![]), 1);
        tb.sink.log.borrow_mut().clear();
        tb.process_token(tag("meta", attrs.clone()), 1)
    });
    let log = tb.sink.log.replace(Vec::new());
    let created: Vec<u64> = log.iter().filter(|e| e["ev"] == "create_element" && e["ns"] == "html" && from_cps(&e["local"]) == "meta")
        .map(|e| e["id"].as_u64().unwrap()).collect();
    let inserted = created.iter().any(|c| log.iter().any(|e| (e["ev"] == "append" || e["ev"] == "append_before_sibling") && e["k"] == "node" && e["child"].as_u64() == Some(*c)));
    let (ret, label, panic) = match r {
        Ok(TokenSinkResult::EncodingIndicator(l)) => ("enc", cps(&l), json!([])),
        Ok(TokenSinkResult::Continue) => ("continue", json!([]), json!([])),
        Ok(_) => ("other", json!([]), json!([])),
        Err(m) => ("panic", json!([]), json!([cps(&m)])),
    };
    out.line(&json!({"ev":"case","case":id,"attrs":ja,"ret":ret,"label":label,"inserted":inserted,"panic":panic}));
}

pub fn main(args: &Args) {
    let mut out = Out::new();
    let mut id = 0u64;
    let shard = args.num("shard", 0);
    // replay input is already split per shard by the orchestrator
    let shards = if args.has("replay") { 1 } else { args.num("shards", 1).max(1) };
    let shard = if args.has("replay") { 0 } else { shard };
    let mut n = 0u64;
    let mut go = |attrs: Vec<(String, String)>, out: &mut Out| {
        n += 1;
        if n % shards != shard {
            return;
        }
        id += 1;
        run(attrs, id, out);
    };
    let s = |x: &str| x.to_string();
    if args.has("replay") {
        for c in read_cases() {
            if c.get("content").is_some() {
                // a content string exported by TLC: expand into attribute-set variants
                let content = from_cps(&c["content"]);
                go(vec![(s("http-equiv"), s("content-type")), (s("content"), content.clone())], &mut out);
                go(vec![(s("content"), content.clone()), (s("http-equiv"), s("Content-Type"))], &mut out);
                go(vec![(s("http-equiv"), s("refresh")), (s("content"), content.clone())], &mut out);
                go(vec![(s("content"), content.clone())], &mut out);
                go(vec![(s("charset"), content.clone())], &mut out);
                go(vec![(s("http-equiv"), s("content-type")), (s("content"), content.clone()), (s("charset"), s("x"))], &mut out);
            } else if c.get("attrs").is_some() {
                let attrs = c["attrs"].as_array().unwrap().iter().map(|a| (from_cps(&a["n"]), from_cps(&a["v"]))).collect();
                go(attrs, &mut out);
            }
        }
    } else {
        let mut r = Rng::new(args.num("seed", 1));
        let words = ["charset", "CHARSET", "Charset", "chars", "et", " ", "\t", "\n", "\x0c", "\r", "=", "\"", "'", ";", "utf-8", "x", "é", "text/html", ",", "charset=", "=charset", "\u{a0}"];
        for _ in 0..args.num("n", 1000) {
            let k = 1 + r.below(9);
            let mut c = String::new();
            for _ in 0..k {
                let w: &str = *r.pick(&words);
                c.push_str(w);
            }
            let he: &str = *r.pick(&["content-type", "Content-Type", "CONTENT-TYPE", "content-typ", "content-type ", "refresh", ""]);
            let mut attrs = vec![];
            if r.chance(4, 5) {
                attrs.push((s("http-equiv"), s(he)));
            }
            if r.chance(5, 6) {
                attrs.push((s("content"), c.clone()));
            }
            if r.chance(1, 6) {
                attrs.push((s("charset"), s(*r.pick(&["", "utf-8", "x y"]))));
            }
            if r.chance(1, 2) {
                attrs.reverse();
            }
            go(attrs, &mut out);
        }
    }
    out.flush();
}
