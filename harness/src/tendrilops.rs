//! C11/C12: operation histories on real tendrils.  After every operation the bytes of every live
//! tendril are logged; the allocator observer (alloc.rs) contributes allocation events.
use crate::util::*;
use serde_json::{json, Value};
use tendril::{fmt, Atomic, Atomicity, NonAtomic, SendTendril, SubtendrilError, Tendril};

fn sub_err(e: SubtendrilError) -> &'static str {
    match e {
        SubtendrilError::OutOfBounds => "oob",
        SubtendrilError::ValidationFailed => "validation",
    }
}

struct Pool<F: fmt::Format, A: Atomicity> {
    t: Vec<Option<Tendril<F, A>>>,
}

fn snapshot<F: fmt::Format, A: Atomicity>(p: &Pool<F, A>) -> Value {
    Value::Array(
        p.t.iter()
            .map(|x| match x {
                None => json!([]),
                Some(t) => json!([cps_bytes(t.as_bytes())]),
            })
            .collect(),
    )
}

fn apply<F, A>(p: &mut Pool<F, A>, op: &Value, is_bytes: bool) -> String
where
    F: fmt::Format,
    A: Atomicity,
{
    let i = op["i"].as_u64().unwrap_or(1) as usize - 1;
    let j = (op["j"].as_u64().unwrap_or(1) as usize).saturating_sub(1);
    let a = op["a"].as_u64().unwrap_or(0) as u32;
    let b = op["b"].as_u64().unwrap_or(0) as u32;
    let x = bytes_from(&op["x"]);
    match op["op"].as_str().unwrap() {
        "from" => match Tendril::<F, A>::try_from_byte_slice(&x) {
            Ok(t) => {
                p.t[i] = Some(t);
                "ok".into()
            },
            Err(()) => "invalid".into(),
        },
        "push" => match p.t[i].as_mut().unwrap().try_push_bytes(&x) {
            Ok(()) => "ok".into(),
            Err(()) => "invalid".into(),
        },
        "push_tendril" => {
            let o = p.t[j].as_ref().unwrap().clone();
            // clone + drop keeps `other` itself untouched apart from becoming shared; use a reference instead
            drop(o);
            let (l, r) = if i < j {
                let (l, r) = p.t.split_at_mut(j);
                (l[i].as_mut().unwrap(), r[0].as_ref().unwrap())
            } else {
                let (l, r) = p.t.split_at_mut(i);
                (r[0].as_mut().unwrap(), l[j].as_ref().unwrap())
            };
            l.push_tendril(r);
            "ok".into()
        },
        "sub" => match p.t[i].as_ref().unwrap().try_subtendril(a, b) {
            Ok(t) => {
                p.t[j] = Some(t);
                "ok".into()
            },
            Err(e) => sub_err(e).into(),
        },
        "pop_front" => match p.t[i].as_mut().unwrap().try_pop_front(a) {
            Ok(()) => "ok".into(),
            Err(e) => sub_err(e).into(),
        },
        "pop_back" => match p.t[i].as_mut().unwrap().try_pop_back(a) {
            Ok(()) => "ok".into(),
            Err(e) => sub_err(e).into(),
        },
        "clone" => {
            let c = p.t[i].as_ref().unwrap().clone();
            p.t[j] = Some(c);
            "ok".into()
        },
        "clear" => {
            p.t[i].as_mut().unwrap().clear();
            "ok".into()
        },
        "write" => {
            if is_bytes {
                // DerefMut on the byte view: copy-on-write for shared buffers
                let t = p.t[i].as_mut().unwrap();
                let bt: &mut Tendril<fmt::Bytes, A> = unsafe { std::mem::transmute(t) };
                bt[(a - 1) as usize] = b as u8;
            }
            "ok".into()
        },
        "reserve" => {
            p.t[i].as_mut().unwrap().reserve(a);
            "ok".into()
        },
        "send" => {
            let t = p.t[i].take().unwrap();
            let s: SendTendril<F> = t.into_send();
            p.t[i] = Some(Tendril::<F, A>::from(s));
            "ok".into()
        },
        "drop" => {
            p.t[i] = None;
            "ok".into()
        },
        _ => "unknown".into(),
    }
}

/// character-level operations (formats with a CharFormat): pop_front_char, pop_front_char_run, try_push_char
fn char_op<F, A>(p: &mut Pool<F, A>, op: &Value) -> Option<String>
where
    F: for<'a> fmt::CharFormat<'a>,
    A: Atomicity,
{
    let i = op["i"].as_u64().unwrap_or(1) as usize - 1;
    let j = (op["j"].as_u64().unwrap_or(1) as usize).saturating_sub(1);
    let a = op["a"].as_u64().unwrap_or(0) as u32;
    match op["op"].as_str().unwrap() {
        "pop_char" => Some(match p.t[i].as_mut().unwrap().pop_front_char() {
            Some(c) => format!("char:{}", c as u32),
            None => "none".into(),
        }),
        "pop_run" => {
            // classes: 0 = ASCII letter, 1 = ASCII whitespace, 2 = anything else
            let r = p.t[i].as_mut().unwrap().pop_front_char_run(|c| if c.is_ascii_alphabetic() { 0u8 } else if c.is_ascii_whitespace() { 1 } else { 2 });
            Some(match r {
                Some((t, class)) => {
                    p.t[j] = Some(t);
                    format!("run:{}", class)
                },
                None => "none".into(),
            })
        },
        "push_char" => Some(match char::from_u32(a) {
            Some(c) => match p.t[i].as_mut().unwrap().try_push_char(c) {
                Ok(()) => "ok".into(),
                Err(()) => "invalid".into(),
            },
            None => "nochar".into(),
        }),
        _ => None,
    }
}
type CharOp<F, A> = Option<fn(&mut Pool<F, A>, &Value) -> Option<String>>;

fn run_history<F: fmt::Format, A: Atomicity>(fmt_name: &str, ops: &[Value], slots: usize, id: u64, out: &mut Out, cop: CharOp<F, A>) {
    crate::alloc::begin();
    let mut p: Pool<F, A> = Pool { t: (0..slots).map(|_| None).collect() };
    out.line(&json!({"ev":"reset","case":id,"fmt":fmt_name,"slots":slots}));
    let is_bytes = fmt_name == "bytes";
    let mut dead = false;
    for op in ops {
        if dead {
            break;
        }
        crate::alloc::on();
        // an operation addressed to an empty slot is not performed (the generator's shadow is only approximate)
        let need_i = !matches!(op["op"].as_str().unwrap_or(""), "from");
        let need_j = matches!(op["op"].as_str().unwrap_or(""), "push_tendril");
        let si = op["i"].as_u64().unwrap_or(1) as usize - 1;
        let sj = (op["j"].as_u64().unwrap_or(1) as usize).saturating_sub(1);
        if (need_i && p.t[si].is_none()) || (need_j && p.t[sj].is_none()) {
            out.line(&json!({"ev":"op","case":id,"op":op["op"],"i":op["i"],"j":op["j"],"a":op["a"],"b":op["b"],"x":op["x"],
                             "res":"noslot","snap":snapshot(&p),"panicked":false}));
            continue;
        }
        let r = catch(|| match cop.and_then(|f| f(&mut p, op)) {
            Some(res) => res,
            None => apply(&mut p, op, is_bytes),
        });
        crate::alloc::off();
        let (res, snap) = match r {
            Ok(s) => (s, snapshot(&p)),
            Err(m) => {
                dead = true;
                (format!("panic: {}", m), json!([]))
            },
        };
        out.line(&json!({"ev":"op","case":id,"op":op["op"],"i":op["i"],"j":op["j"],"a":op["a"],"b":op["b"],"x":op["x"],
                         "res":res,"snap":snap,"panicked":dead}));
    }
    crate::alloc::on();
    drop(p);
    let a = crate::alloc::end();
    out.line(&json!({"ev":"end","case":id,"allocs":a.allocs,"frees":a.frees,"live":a.live,"double_free":a.double_free,
                     "canary":a.canary,"foreign_free":a.foreign_free,"content_ok":true,"panic":false,"threads":1,"views":0}));
}

fn gen_history(r: &mut Rng, fmt_name: &str, slots: usize, nops: usize) -> Vec<Value> {
    // a tiny shadow of lengths/liveness only, to choose sensible parameters (never used to judge)
    let mut live = vec![false; slots];
    let mut len = vec![0usize; slots];
    let pieces: Vec<Vec<u8>> = if fmt_name == "utf8" {
        vec![b"a".to_vec(), "é".as_bytes().to_vec(), "€".as_bytes().to_vec(), "𝄞".as_bytes().to_vec(), b"hello world, ".to_vec(),
             "ééééé".as_bytes().to_vec(), vec![0xC3], vec![0xA9], vec![0xF0, 0x9D], b"0123456789abcdefXYZ".to_vec(), vec![]]
    } else if fmt_name == "wtf8" {
        // lead surrogates ED A0..AF xx, trail surrogates ED B0..BF xx, ordinary characters of every length, and invalid pieces
        vec![b"a".to_vec(), vec![0xED, 0xA0, 0x80], vec![0xED, 0xB0, 0x80], vec![0xED, 0xAF, 0xBF], vec![0xED, 0xBF, 0xBF], vec![0xED, 0xA0, 0xBD, 0x61],
             vec![0x61, 0xED, 0xB8, 0x80], "€".as_bytes().to_vec(), "𝄞".as_bytes().to_vec(), vec![0xED, 0x9F, 0xBF], b"0123456789abcdefXYZ".to_vec(),
             vec![0xED, 0xA0, 0x80, 0xED, 0xB0, 0x80], vec![0xED, 0xA0], vec![0x80], vec![0xED, 0xB0, 0x80, 0xED, 0xA0, 0x80], vec![0xF0, 0x90, 0x80, 0x80], vec![]]
    } else if fmt_name == "ascii" {
        vec![b"a".to_vec(), b"hello".to_vec(), b"0123456789abcdefXYZ".to_vec(), vec![0x80], vec![0x41, 0xFF], vec![]]
    } else {
        vec![vec![1], vec![1, 2, 3, 4, 5], (0..9).collect(), (0..19).collect(), vec![0xFF, 0xC3], vec![]]
    };
    let mut ops = Vec::new();
    for _ in 0..nops {
        let i = r.below(slots);
        let j = r.below(slots);
        let e = |op: &str, i: usize, j: usize, a: usize, b: usize, x: &[u8]| json!({"op":op,"i":i+1,"j":j+1,"a":a,"b":b,"x":cps_bytes(x),"res":""});
        if !live[i] {
            let x = r.pick(&pieces).clone();
            ops.push(e("from", i, 0, 0, 0, &x));
            // may fail validation; the harness result decides, shadow assumes success only for valid utf8/ascii
            let ok = match fmt_name { "utf8" => std::str::from_utf8(&x).is_ok(), "ascii" => x.iter().all(|b| *b < 128),
                                      "wtf8" => tendril::Tendril::<fmt::WTF8>::try_from_byte_slice(&x).is_ok(), _ => true };
            if ok { live[i] = true; len[i] = x.len(); }
            continue;
        }
        if matches!(fmt_name, "utf8" | "ascii" | "latin1") && r.chance(1, 6) {
            // character-level operations
            match r.below(3) {
                0 => ops.push(e("pop_char", i, 0, 0, 0, &[])),
                1 => { if i != j { ops.push(e("pop_run", i, j, 0, 0, &[])); live[j] = true; len[j] = len[i]; } },
                _ => ops.push(e("push_char", i, 0, *r.pick(&[0x61usize, 0x20, 0x7F, 0x80, 0xE9, 0xFF, 0x100, 0x20AC, 0x1D11E, 0x0A]), 0, &[])),
            }
            continue;
        }
        match r.below(18) {
            16 | 17 => {
                // copy-on-write probe: make the representation unusual (owned but short: SendTendril round trip,
                // clear, reserve), clone, then grow both handles
                let free: Vec<usize> = (0..slots).filter(|k| !live[*k]).collect();
                if let Some(&j) = free.first() {
                    match r.below(3) {
                        0 => ops.push(e("send", i, 0, 0, 0, &[])),
                        1 => { ops.push(e("clear", i, 0, 0, 0, &[])); len[i] = 0; },
                        _ => ops.push(e("reserve", i, 0, 20 + r.below(20), 0, &[])),
                    }
                    ops.push(e("clone", i, j, 0, 0, &[]));
                    live[j] = true;
                    len[j] = len[i];
                    let x: Vec<u8> = if fmt_name == "bytes" || fmt_name == "latin1" { (100..109).collect() } else { b"ABCDEFGHI".to_vec() };
                    let y: Vec<u8> = if fmt_name == "bytes" || fmt_name == "latin1" { (200..205).collect() } else { b"vwxyz".to_vec() };
                    ops.push(e("push", i, 0, 0, 0, &x));
                    ops.push(e("push", j, 0, 0, 0, &y));
                    len[i] += x.len();
                    len[j] += y.len();
                }
            },
            14 | 15 => {
                // split into two views of one buffer and rejoin them: the receiver starts at offset o1 (zero or not), the pushed
                // view starts right behind it (the zero-copy merge), at the receiver's *length*, one byte off, or overlapping
                let free: Vec<usize> = (0..slots).filter(|k| !live[*k]).collect();
                if free.len() >= 2 && fmt_name != "utf8" && fmt_name != "wtf8" {
                    if len[i] < 48 {
                        let fill: Vec<u8> = if fmt_name == "bytes" || fmt_name == "latin1" { (10..58).collect() } else { (0..48).map(|k| b'a' + (k % 26) as u8).collect() };
                        ops.push(e("push", i, 0, 0, 0, &fill));
                        len[i] += fill.len();
                    }
                    let (a, b) = (free[0], free[1]);
                    let o1 = *r.pick(&[0usize, 0, 1, 3, 9, 10]);
                    let l1 = 9 + r.below(8);
                    let o2 = *r.pick(&[o1 + l1, o1 + l1, l1, o1 + l1 + 1, o1 + l1 - 1, l1 + 1, o1 + l1 + 2]);
                    let l2 = 9 + r.below(len[i] - o2 - 9 + 1);
                    ops.push(e("sub", i, a, o1, l1, &[]));
                    ops.push(e("sub", i, b, o2, l2, &[]));
                    ops.push(e("push_tendril", a, b, 0, 0, &[]));
                    live[a] = true;
                    len[a] = l1 + l2;
                    live[b] = true;
                    len[b] = l2;
                }
            },
            0 | 1 | 2 => {
                let x = r.pick(&pieces).clone();
                let ok = match fmt_name { "utf8" => std::str::from_utf8(&x).is_ok(), "ascii" => x.iter().all(|b| *b < 128),
                                      "wtf8" => tendril::Tendril::<fmt::WTF8>::try_from_byte_slice(&x).is_ok(), _ => true };
                ops.push(e("push", i, 0, 0, 0, &x));
                if ok { len[i] += x.len(); }
            },
            3 => if live[j] && i != j && len[i] + len[j] < 4000 { ops.push(e("push_tendril", i, j, 0, 0, &[])); len[i] += len[j]; },
            4 | 5 => if !live[j] {
                let off = r.below(len[i] + 2);
                let l = r.below(len[i] + 2);
                ops.push(e("sub", i, j, off, l, &[]));
                // shadow: unknown whether it succeeded for utf8; mark j live only if in bounds and format cannot fail
                if off <= len[i] && l <= len[i] - off && fmt_name != "utf8" { live[j] = true; len[j] = l; }
                else if fmt_name == "utf8" { /* resolved below by a no-op: keep j free in the shadow */ }
            },
            6 => { let n = r.below(len[i] + 2); ops.push(e("pop_front", i, 0, n, 0, &[])); if n <= len[i] && fmt_name != "utf8" { len[i] -= n; } },
            7 => { let n = r.below(len[i] + 2); ops.push(e("pop_back", i, 0, n, 0, &[])); if n <= len[i] && fmt_name != "utf8" { len[i] -= n; } },
            8 | 9 => if !live[j] { ops.push(e("clone", i, j, 0, 0, &[])); live[j] = true; len[j] = len[i]; },
            10 => { ops.push(e("clear", i, 0, 0, 0, &[])); len[i] = 0; },
            11 => if fmt_name == "bytes" && len[i] > 0 { ops.push(e("write", i, 0, 1 + r.below(len[i]), 0x77, &[])); },
            12 => { ops.push(e(*r.pick(&["send", "reserve"]), i, 0, r.below(40), 0, &[])); },
            _ => { ops.push(e("drop", i, 0, 0, 0, &[])); live[i] = false; len[i] = 0; },
        }
    }
    ops
}

pub fn main(args: &Args) {
    let mut out = Out::new();
    let mut id = 0u64;
    let atomic = args.has("atomic");
    let mut go = |fmt_name: &str, ops: &[Value], slots: usize, out: &mut Out| {
        id += 1;
        match (fmt_name, atomic) {
            ("utf8", false) => run_history::<fmt::UTF8, NonAtomic>(fmt_name, ops, slots, id, out, Some(char_op::<fmt::UTF8, NonAtomic>)),
            ("utf8", true) => run_history::<fmt::UTF8, Atomic>(fmt_name, ops, slots, id, out, Some(char_op::<fmt::UTF8, Atomic>)),
            ("ascii", _) => run_history::<fmt::ASCII, NonAtomic>(fmt_name, ops, slots, id, out, Some(char_op::<fmt::ASCII, NonAtomic>)),
            ("latin1", _) => run_history::<fmt::Latin1, NonAtomic>(fmt_name, ops, slots, id, out, Some(char_op::<fmt::Latin1, NonAtomic>)),
            ("wtf8", _) => run_history::<fmt::WTF8, NonAtomic>(fmt_name, ops, slots, id, out, None),
            (_, false) => run_history::<fmt::Bytes, NonAtomic>("bytes", ops, slots, id, out, None),
            (_, true) => run_history::<fmt::Bytes, Atomic>("bytes", ops, slots, id, out, None),
        }
    };
    if args.has("replay") {
        for c in read_cases() {
            if c.get("ops").is_some() {
                let ops = c["ops"].as_array().unwrap().clone();
                go(c["fmt"].as_str().unwrap_or("bytes"), &ops, c["slots"].as_u64().unwrap_or(3) as usize, &mut out);
            }
        }
    } else {
        let mut r = Rng::new(args.num("seed", 1));
        for _ in 0..args.num("n", 100) {
            let f = *r.pick(&["bytes", "utf8", "utf8", "ascii", "latin1", "wtf8", "wtf8"]);
            let slots = 6;
            let ops = gen_history(&mut r, f, slots, args.num("ops", 60) as usize);
            go(f, &ops, slots, &mut out);
        }
    }
    out.flush();
}

/// C12 (schedules): clones of one atomic tendril distributed over threads, dropped in every order
/// the scheduler produces; the allocation observer reports; contents are checked by each thread
/// against the expected slice (reported as data).
pub fn main_mt(args: &Args) {
    use std::sync::{Arc, Barrier};
    let mut out = Out::new();
    let mut r = Rng::new(args.num("seed", 1));
    let n = args.num("n", 50);
    for id in 1..=n {
        let nthreads = 2 + r.below(3);
        let nviews = 2 + r.below(7);
        let len = 9 + r.below(60);
        let seeds: Vec<u64> = (0..nthreads).map(|_| r.next()).collect();
        let assign: Vec<usize> = (0..nviews).map(|_| r.below(nthreads)).collect();
        let kinds: Vec<usize> = (0..nviews).map(|_| r.below(3)).collect();
        crate::alloc::begin();
        crate::alloc::on();
        let content_ok = catch(|| {
            let base: Vec<u8> = (0..len).map(|i| (i % 251) as u8).collect();
            let root: Tendril<fmt::Bytes, Atomic> = Tendril::from_slice(&base[..]);
            let mut per_thread: Vec<Vec<(Tendril<fmt::Bytes, Atomic>, usize, usize)>> = (0..nthreads).map(|_| Vec::new()).collect();
            for v in 0..nviews {
                let (t, off, l) = match kinds[v] {
                    0 => (root.clone(), 0, len),
                    1 => {
                        let off = v % (len / 2);
                        let l = len - off;
                        (root.subtendril(off as u32, l as u32), off, l)
                    },
                    _ => {
                        let s: SendTendril<fmt::Bytes> = root.clone().into_send();
                        (Tendril::from(s), 0, len)
                    },
                };
                per_thread[assign[v]].push((t, off, l));
            }
            drop(root);
            let barrier = Arc::new(Barrier::new(nthreads));
            let mut handles = Vec::new();
            for (ti, mine) in per_thread.into_iter().enumerate() {
                let b = barrier.clone();
                let seed = seeds[ti];
                let base = base.clone();
                handles.push(std::thread::spawn(move || {
                    let mut rr = Rng::new(seed);
                    let mut mine = mine;
                    let mut ok = true;
                    b.wait();
                    for _ in 0..40 {
                        if mine.is_empty() {
                            break;
                        }
                        let k = rr.below(mine.len());
                        match rr.below(5) {
                            0 => {
                                let (t, off, l) = &mine[k];
                                let c = t.clone();
                                ok &= &c[..] == &base[*off..*off + *l];
                                let (o, ll) = (*off, *l);
                                mine.push((c, o, ll));
                            },
                            1 => {
                                let (t, off, l) = &mine[k];
                                if *l > 9 {
                                    let s = t.subtendril(1, (*l - 1) as u32);
                                    ok &= &s[..] == &base[*off + 1..*off + *l];
                                    let (o, ll) = (*off + 1, *l - 1);
                                    mine.push((s, o, ll));
                                }
                            },
                            2 => {
                                let (t, off, l) = &mut mine[k];
                                if *l > 10 {
                                    t.pop_front(1);
                                    *off += 1;
                                    *l -= 1;
                                }
                            },
                            _ => {
                                let (t, off, l) = mine.swap_remove(k);
                                ok &= &t[..] == &base[off..off + l];
                                drop(t);
                            },
                        }
                        if rr.chance(1, 4) {
                            std::thread::yield_now();
                        }
                    }
                    drop(mine);
                    ok
                }));
            }
            let mut ok = true;
            for h in handles {
                ok &= h.join().unwrap_or(false);
            }
            ok
        });
        let a = crate::alloc::end();
        out.line(&json!({"ev":"reset","case":id,"fmt":"bytes","slots":0}));
        out.line(&json!({"ev":"end","case":id,"allocs":a.allocs,"frees":a.frees,"live":a.live,"double_free":a.double_free,
                         "canary":a.canary,"foreign_free":a.foreign_free,
                         "content_ok": content_ok.clone().unwrap_or(false), "panic": content_ok.is_err(),
                         "threads": nthreads, "views": nviews}));
    }
    out.flush();
}
