---------------------------- MODULE HtmlTokenizer ----------------------------
(***************************************************************************)
(* L0: the WHATWG HTML tokenization algorithm (13.2.5), transcribed from   *)
(* the standard, as a pure function of the *preprocessed* input (no CR),   *)
(* a start configuration and the sink's replies:                           *)
(*   cfg = [state, last (<<>> or <<name>>), cdata (BOOLEAN),               *)
(*          replies (sequence of [k, name, r]),                            *)
(*          inject (strings a paused script writes, one per "script" reply)]*)
(* State names are those of html5ever's `states::State` (parameterised     *)
(* states flattened with a dot) so that start states can be passed through *)
(* unchanged; the comment on each arm gives the WHATWG section.            *)
(* Parse errors are not modelled (C01 compares tokens only).               *)
(* Tokens:  [k |-> "chars", s]   adjacent character tokens concatenated    *)
(*          [k |-> "nul"]        a U+0000 delivered as such                *)
(*          [k |-> "start"|"end", name, attrs (seq of [n, v]), sc, dup, at]*)
(*          [k |-> "comment", s, at]                                       *)
(*          [k |-> "doctype", name, pub, sys (<<>> or <<s>>), fq, at]      *)
(*          [k |-> "eof", at]                                              *)
(* `at` = number of input characters consumed when the token was emitted.  *)
(***************************************************************************)
EXTENDS CharRef

LT == 60
GT == 62
SLASH == 47
BANG == 33
QMARK == 63
DASH == 45
DQ == 34
SQ == 39
RBR == 93

S_script == <<115, 99, 114, 105, 112, 116>>
S_doctype == <<100, 111, 99, 116, 121, 112, 101>>
S_public == <<112, 117, 98, 108, 105, 99>>
S_system == <<115, 121, 115, 116, 101, 109>>
S_cdata == <<91, 67, 68, 65, 84, 65, 91>>          \* [CDATA[

CharRefStates == {"Data", "RawData.Rcdata", "AttributeValue.DoubleQuoted", "AttributeValue.SingleQuoted",
                  "AttributeValue.Unquoted"}
AttrValueStates == {"AttributeValue.DoubleQuoted", "AttributeValue.SingleQuoted", "AttributeValue.Unquoted"}

InitTok(cfg) ==
    [st |-> cfg.state, toks |-> <<>>, pos |-> 0, cr |-> FALSE, splice |-> FALSE, ninj |-> 0,
     tk |-> "start", tn |-> <<>>, ta |-> <<>>, an |-> <<>>, av |-> <<>>, hasAttr |-> FALSE,
     sc |-> FALSE, dup |-> FALSE,
     cm |-> <<>>, dn |-> <<>>, dp |-> <<>>, ds |-> <<>>, fq |-> FALSE,
     tb |-> <<>>, last |-> cfg.last]

AddChars(toks, cs) ==
    IF cs = <<>> THEN toks
    ELSE IF toks # <<>> /\ toks[Len(toks)].k = "chars"
         THEN [toks EXCEPT ![Len(toks)] = [k |-> "chars", s |-> toks[Len(toks)].s \o cs]]
         ELSE Append(toks, [k |-> "chars", s |-> cs])

To(s, st) == [s EXCEPT !.st = st]
Emit(s, cs) == [s EXCEPT !.toks = AddChars(@, cs)]
EmitNul(s) == [s EXCEPT !.toks = Append(@, [k |-> "nul"])]
\* a character emitted "as is": U+0000 is delivered as a distinct NUL token
EmitAsIs(s, c) == IF c = NUL THEN EmitNul(s) ELSE Emit(s, <<c>>)

NewTag(s, kind, name) ==
    [s EXCEPT !.tk = kind, !.tn = name, !.ta = <<>>, !.sc = FALSE, !.dup = FALSE,
              !.hasAttr = FALSE, !.an = <<>>, !.av = <<>>]

HasAttrNamed(ta, n) == \E i \in DOMAIN ta : ta[i].n = n

\* leave the attribute being built: keep it unless an attribute of that name exists already
FinishAttr(s) ==
    IF ~s.hasAttr THEN s
    ELSE IF HasAttrNamed(s.ta, s.an)
         THEN [s EXCEPT !.dup = TRUE, !.hasAttr = FALSE, !.an = <<>>, !.av = <<>>]
         ELSE [s EXCEPT !.ta = Append(@, [n |-> s.an, v |-> s.av]), !.hasAttr = FALSE, !.an = <<>>, !.av = <<>>]

StartAttr(s, name) == [FinishAttr(s) EXCEPT !.hasAttr = TRUE, !.an = name, !.av = <<>>]

ReplyFor(cfg, kind, name) ==
    LET idx == {i \in DOMAIN cfg.replies : cfg.replies[i].k = kind /\ cfg.replies[i].name = name} IN
    IF idx = {} THEN "continue" ELSE cfg.replies[CHOOSE i \in idx : \A j \in idx : i <= j].r

StateAfterReply(r) ==
    CASE r = "rcdata" -> "RawData.Rcdata"
      [] r = "rawtext" -> "RawData.Rawtext"
      [] r = "script_data" -> "RawData.ScriptData"
      [] r = "escaped" -> "RawData.Escaped"
      [] r = "double_escaped" -> "RawData.DoubleEscaped"
      [] r = "plaintext" -> "Plaintext"
      [] OTHER -> "Data"                      \* continue, script

\* emit the current tag token; the tokenizer switches to the data state unless the tree
\* construction stage (the sink) asks for another state
EmitTag(s, cfg) ==
    LET s1 == FinishAttr(s)
        t == [k |-> s1.tk, name |-> s1.tn, attrs |-> s1.ta, sc |-> s1.sc, dup |-> s1.dup, at |-> s1.pos] IN
    [s1 EXCEPT !.toks = Append(@, t),
               !.last = IF s1.tk = "start" THEN <<s1.tn>> ELSE @,
               !.st = StateAfterReply(ReplyFor(cfg, s1.tk, s1.tn)),
               !.splice = (ReplyFor(cfg, s1.tk, s1.tn) = "script"),   \* the parser pauses here (13.2.6.4.8)
               !.tn = <<>>, !.ta = <<>>, !.sc = FALSE, !.dup = FALSE]

EmitComment(s) == [s EXCEPT !.toks = Append(@, [k |-> "comment", s |-> s.cm, at |-> s.pos]), !.cm = <<>>]

EmitDoctype(s) ==
    [s EXCEPT !.toks = Append(@, [k |-> "doctype", name |-> s.dn, pub |-> s.dp, sys |-> s.ds, fq |-> s.fq, at |-> s.pos]),
              !.dn = <<>>, !.dp = <<>>, !.ds = <<>>, !.fq = FALSE]

NewDoctype(s) == [s EXCEPT !.dn = <<>>, !.dp = <<>>, !.ds = <<>>, !.fq = FALSE]
OptPush(o, c) == IF o = <<>> THEN <<<<c>>>> ELSE <<Append(o[1], c)>>

AppropriateEnd(s) == s.tk = "end" /\ s.last = <<s.tn>>

RawKindOf(st) ==   \* "RawLt.Rcdata" -> "Rcdata"
    CASE st \in {"RawData.Rcdata", "RawLt.Rcdata", "RawEndTagOpen.Rcdata", "RawEndTagName.Rcdata"} -> "Rcdata"
      [] st \in {"RawData.Rawtext", "RawLt.Rawtext", "RawEndTagOpen.Rawtext", "RawEndTagName.Rawtext"} -> "Rawtext"
      [] st \in {"RawData.ScriptData", "RawLt.ScriptData", "RawEndTagOpen.ScriptData", "RawEndTagName.ScriptData"} -> "ScriptData"
      [] st \in {"RawData.Escaped", "RawLt.Escaped", "RawEndTagOpen.Escaped", "RawEndTagName.Escaped"} -> "Escaped"
      [] OTHER -> "DoubleEscaped"

RawDataSt(kind) ==
    CASE kind = "Rcdata" -> "RawData.Rcdata" [] kind = "Rawtext" -> "RawData.Rawtext"
      [] kind = "ScriptData" -> "RawData.ScriptData" [] kind = "Escaped" -> "RawData.Escaped"
      [] OTHER -> "RawData.DoubleEscaped"
RawEndTagOpenSt(kind) ==
    CASE kind = "Rcdata" -> "RawEndTagOpen.Rcdata" [] kind = "Rawtext" -> "RawEndTagOpen.Rawtext"
      [] kind = "ScriptData" -> "RawEndTagOpen.ScriptData" [] OTHER -> "RawEndTagOpen.Escaped"
RawEndTagNameSt(kind) ==
    CASE kind = "Rcdata" -> "RawEndTagName.Rcdata" [] kind = "Rawtext" -> "RawEndTagName.Rawtext"
      [] kind = "ScriptData" -> "RawEndTagName.ScriptData" [] OTHER -> "RawEndTagName.Escaped"

IdKindOf(st) == IF st \in {"AfterDoctypeKeyword.Public", "BeforeDoctypeIdentifier.Public",
                           "DoctypeIdentifierDoubleQuoted.Public", "DoctypeIdentifierSingleQuoted.Public",
                           "AfterDoctypeIdentifier.Public"} THEN "Public" ELSE "System"
ClearId(s, kind) == IF kind = "Public" THEN [s EXCEPT !.dp = <<<<>>>>] ELSE [s EXCEPT !.ds = <<<<>>>>]
PushId(s, kind, c) == IF kind = "Public" THEN [s EXCEPT !.dp = OptPush(@, c)] ELSE [s EXCEPT !.ds = OptPush(@, c)]
DqIdSt(kind) == IF kind = "Public" THEN "DoctypeIdentifierDoubleQuoted.Public" ELSE "DoctypeIdentifierDoubleQuoted.System"
SqIdSt(kind) == IF kind = "Public" THEN "DoctypeIdentifierSingleQuoted.Public" ELSE "DoctypeIdentifierSingleQuoted.System"
BeforeIdSt(kind) == IF kind = "Public" THEN "BeforeDoctypeIdentifier.Public" ELSE "BeforeDoctypeIdentifier.System"
AfterIdSt(kind) == IF kind = "Public" THEN "AfterDoctypeIdentifier.Public" ELSE "AfterDoctypeIdentifier.System"

-----------------------------------------------------------------------------
(* One input character.  "Reconsume in X" is Step(To(s, X), c, cfg).        *)

RECURSIVE Step(_, _, _)
Step(s, c, cfg) ==
  LET st == s.st IN
  CASE st = "Data" ->                                               \* 13.2.5.1
        IF c = AMP THEN [s EXCEPT !.cr = TRUE]                      \* Run consumes the reference
        ELSE IF c = LT THEN To(s, "TagOpen") ELSE EmitAsIs(s, c)
    [] st = "RawData.Rcdata" ->                                     \* 13.2.5.2
        IF c = AMP THEN [s EXCEPT !.cr = TRUE]
        ELSE IF c = LT THEN To(s, "RawLt.Rcdata") ELSE IF c = NUL THEN Emit(s, <<REPL>>) ELSE Emit(s, <<c>>)
    [] st \in {"RawData.Rawtext", "RawData.ScriptData"} ->          \* 13.2.5.3, .4
        IF c = LT THEN To(s, IF st = "RawData.Rawtext" THEN "RawLt.Rawtext" ELSE "RawLt.ScriptData")
        ELSE IF c = NUL THEN Emit(s, <<REPL>>) ELSE Emit(s, <<c>>)
    [] st = "Plaintext" ->                                          \* 13.2.5.5
        IF c = NUL THEN Emit(s, <<REPL>>) ELSE Emit(s, <<c>>)
    [] st = "TagOpen" ->                                            \* 13.2.5.6
        IF c = BANG THEN To(s, "MarkupDeclarationOpen")
        ELSE IF c = SLASH THEN To(s, "EndTagOpen")
        ELSE IF IsAsciiAlpha(c) THEN To(NewTag(s, "start", <<Lower(c)>>), "TagName")
        ELSE IF c = QMARK THEN Step(To([s EXCEPT !.cm = <<>>], "BogusComment"), c, cfg)
        ELSE Step(To(Emit(s, <<LT>>), "Data"), c, cfg)
    [] st = "EndTagOpen" ->                                         \* 13.2.5.7
        IF IsAsciiAlpha(c) THEN To(NewTag(s, "end", <<Lower(c)>>), "TagName")
        ELSE IF c = GT THEN To(s, "Data")
        ELSE Step(To([s EXCEPT !.cm = <<>>], "BogusComment"), c, cfg)
    [] st = "TagName" ->                                            \* 13.2.5.8
        IF IsWs(c) THEN To(s, "BeforeAttributeName")
        ELSE IF c = SLASH THEN To(s, "SelfClosingStartTag")
        ELSE IF c = GT THEN EmitTag(s, cfg)
        ELSE IF c = NUL THEN [s EXCEPT !.tn = Append(@, REPL)]
        ELSE [s EXCEPT !.tn = Append(@, Lower(c))]
    [] st \in {"RawLt.Rcdata", "RawLt.Rawtext"} ->                  \* 13.2.5.9, .12
        IF c = SLASH THEN To([s EXCEPT !.tb = <<>>], RawEndTagOpenSt(RawKindOf(st)))
        ELSE Step(To(Emit(s, <<LT>>), RawDataSt(RawKindOf(st))), c, cfg)
    [] st = "RawLt.ScriptData" ->                                   \* 13.2.5.15
        IF c = SLASH THEN To([s EXCEPT !.tb = <<>>], "RawEndTagOpen.ScriptData")
        ELSE IF c = BANG THEN To(Emit(s, <<LT, BANG>>), "ScriptDataEscapeStart.Escaped")
        ELSE Step(To(Emit(s, <<LT>>), "RawData.ScriptData"), c, cfg)
    [] st = "RawLt.Escaped" ->                                      \* 13.2.5.23
        IF c = SLASH THEN To([s EXCEPT !.tb = <<>>], "RawEndTagOpen.Escaped")
        ELSE IF IsAsciiAlpha(c) THEN Step(To(Emit([s EXCEPT !.tb = <<>>], <<LT>>), "ScriptDataEscapeStart.DoubleEscaped"), c, cfg)
        ELSE Step(To(Emit(s, <<LT>>), "RawData.Escaped"), c, cfg)
    [] st = "RawLt.DoubleEscaped" ->                                \* 13.2.5.30
        IF c = SLASH THEN To(Emit([s EXCEPT !.tb = <<>>], <<SLASH>>), "ScriptDataDoubleEscapeEnd")
        ELSE Step(To(s, "RawData.DoubleEscaped"), c, cfg)
    [] st \in {"RawEndTagOpen.Rcdata", "RawEndTagOpen.Rawtext", "RawEndTagOpen.ScriptData", "RawEndTagOpen.Escaped"} ->
        \* 13.2.5.10, .13, .16, .24
        IF IsAsciiAlpha(c) THEN Step(To(NewTag(s, "end", <<>>), RawEndTagNameSt(RawKindOf(st))), c, cfg)
        ELSE Step(To(Emit(s, <<LT, SLASH>>), RawDataSt(RawKindOf(st))), c, cfg)
    [] st \in {"RawEndTagName.Rcdata", "RawEndTagName.Rawtext", "RawEndTagName.ScriptData", "RawEndTagName.Escaped"} ->
        \* 13.2.5.11, .14, .17, .25
        IF IsWs(c) /\ AppropriateEnd(s) THEN To(s, "BeforeAttributeName")
        ELSE IF c = SLASH /\ AppropriateEnd(s) THEN To(s, "SelfClosingStartTag")
        ELSE IF c = GT /\ AppropriateEnd(s) THEN EmitTag(s, cfg)
        ELSE IF IsAsciiAlpha(c) THEN [s EXCEPT !.tn = Append(@, Lower(c)), !.tb = Append(@, c)]
        ELSE Step(To(Emit(s, <<LT, SLASH>> \o s.tb), RawDataSt(RawKindOf(st))), c, cfg)
    [] st = "ScriptDataEscapeStart.Escaped" ->                      \* 13.2.5.18
        IF c = DASH THEN To(Emit(s, <<DASH>>), "ScriptDataEscapeStartDash")
        ELSE Step(To(s, "RawData.ScriptData"), c, cfg)
    [] st = "ScriptDataEscapeStartDash" ->                          \* 13.2.5.19
        IF c = DASH THEN To(Emit(s, <<DASH>>), "ScriptDataEscapedDashDash.Escaped")
        ELSE Step(To(s, "RawData.ScriptData"), c, cfg)
    [] st = "RawData.Escaped" ->                                    \* 13.2.5.20
        IF c = DASH THEN To(Emit(s, <<DASH>>), "ScriptDataEscapedDash.Escaped")
        ELSE IF c = LT THEN To(s, "RawLt.Escaped")
        ELSE IF c = NUL THEN Emit(s, <<REPL>>) ELSE Emit(s, <<c>>)
    [] st = "ScriptDataEscapedDash.Escaped" ->                      \* 13.2.5.21
        IF c = DASH THEN To(Emit(s, <<DASH>>), "ScriptDataEscapedDashDash.Escaped")
        ELSE IF c = LT THEN To(s, "RawLt.Escaped")
        ELSE To(Emit(s, <<IF c = NUL THEN REPL ELSE c>>), "RawData.Escaped")
    [] st = "ScriptDataEscapedDashDash.Escaped" ->                  \* 13.2.5.22
        IF c = DASH THEN Emit(s, <<DASH>>)
        ELSE IF c = LT THEN To(s, "RawLt.Escaped")
        ELSE IF c = GT THEN To(Emit(s, <<GT>>), "RawData.ScriptData")
        ELSE To(Emit(s, <<IF c = NUL THEN REPL ELSE c>>), "RawData.Escaped")
    [] st = "ScriptDataEscapeStart.DoubleEscaped" ->                \* 13.2.5.26
        IF IsWs(c) \/ c = SLASH \/ c = GT
        THEN To(Emit(s, <<c>>), IF s.tb = S_script THEN "RawData.DoubleEscaped" ELSE "RawData.Escaped")
        ELSE IF IsAsciiAlpha(c) THEN Emit([s EXCEPT !.tb = Append(@, Lower(c))], <<c>>)
        ELSE Step(To(s, "RawData.Escaped"), c, cfg)
    [] st = "RawData.DoubleEscaped" ->                              \* 13.2.5.27
        IF c = DASH THEN To(Emit(s, <<DASH>>), "ScriptDataEscapedDash.DoubleEscaped")
        ELSE IF c = LT THEN To(Emit(s, <<LT>>), "RawLt.DoubleEscaped")
        ELSE IF c = NUL THEN Emit(s, <<REPL>>) ELSE Emit(s, <<c>>)
    [] st = "ScriptDataEscapedDash.DoubleEscaped" ->                \* 13.2.5.28
        IF c = DASH THEN To(Emit(s, <<DASH>>), "ScriptDataEscapedDashDash.DoubleEscaped")
        ELSE IF c = LT THEN To(Emit(s, <<LT>>), "RawLt.DoubleEscaped")
        ELSE To(Emit(s, <<IF c = NUL THEN REPL ELSE c>>), "RawData.DoubleEscaped")
    [] st = "ScriptDataEscapedDashDash.DoubleEscaped" ->            \* 13.2.5.29
        IF c = DASH THEN Emit(s, <<DASH>>)
        ELSE IF c = LT THEN To(Emit(s, <<LT>>), "RawLt.DoubleEscaped")
        ELSE IF c = GT THEN To(Emit(s, <<GT>>), "RawData.ScriptData")
        ELSE To(Emit(s, <<IF c = NUL THEN REPL ELSE c>>), "RawData.DoubleEscaped")
    [] st = "ScriptDataDoubleEscapeEnd" ->                          \* 13.2.5.31
        IF IsWs(c) \/ c = SLASH \/ c = GT
        THEN To(Emit(s, <<c>>), IF s.tb = S_script THEN "RawData.Escaped" ELSE "RawData.DoubleEscaped")
        ELSE IF IsAsciiAlpha(c) THEN Emit([s EXCEPT !.tb = Append(@, Lower(c))], <<c>>)
        ELSE Step(To(s, "RawData.DoubleEscaped"), c, cfg)
    [] st = "BeforeAttributeName" ->                                \* 13.2.5.32
        IF IsWs(c) THEN s
        ELSE IF c = SLASH \/ c = GT THEN Step(To(s, "AfterAttributeName"), c, cfg)
        ELSE IF c = EQUALS THEN To(StartAttr(s, <<c>>), "AttributeName")
        ELSE Step(To(StartAttr(s, <<>>), "AttributeName"), c, cfg)
    [] st = "AttributeName" ->                                      \* 13.2.5.33
        IF IsWs(c) \/ c = SLASH \/ c = GT THEN Step(To(s, "AfterAttributeName"), c, cfg)
        ELSE IF c = EQUALS THEN To(s, "BeforeAttributeValue")
        ELSE IF c = NUL THEN [s EXCEPT !.an = Append(@, REPL)]
        ELSE [s EXCEPT !.an = Append(@, Lower(c))]
    [] st = "AfterAttributeName" ->                                 \* 13.2.5.34
        IF IsWs(c) THEN s
        ELSE IF c = SLASH THEN To(s, "SelfClosingStartTag")
        ELSE IF c = EQUALS THEN To(s, "BeforeAttributeValue")
        ELSE IF c = GT THEN EmitTag(s, cfg)
        ELSE Step(To(StartAttr(s, <<>>), "AttributeName"), c, cfg)
    [] st = "BeforeAttributeValue" ->                               \* 13.2.5.35
        IF IsWs(c) THEN s
        ELSE IF c = DQ THEN To(s, "AttributeValue.DoubleQuoted")
        ELSE IF c = SQ THEN To(s, "AttributeValue.SingleQuoted")
        ELSE IF c = GT THEN EmitTag(s, cfg)
        ELSE Step(To(s, "AttributeValue.Unquoted"), c, cfg)
    [] st = "AttributeValue.DoubleQuoted" ->                        \* 13.2.5.36
        IF c = AMP THEN [s EXCEPT !.cr = TRUE]
        ELSE IF c = DQ THEN To(s, "AfterAttributeValueQuoted")
        ELSE [s EXCEPT !.av = Append(@, IF c = NUL THEN REPL ELSE c)]
    [] st = "AttributeValue.SingleQuoted" ->                        \* 13.2.5.37
        IF c = AMP THEN [s EXCEPT !.cr = TRUE]
        ELSE IF c = SQ THEN To(s, "AfterAttributeValueQuoted")
        ELSE [s EXCEPT !.av = Append(@, IF c = NUL THEN REPL ELSE c)]
    [] st = "AttributeValue.Unquoted" ->                            \* 13.2.5.38
        IF c = AMP THEN [s EXCEPT !.cr = TRUE]
        ELSE IF IsWs(c) THEN To(s, "BeforeAttributeName")
        ELSE IF c = GT THEN EmitTag(s, cfg)
        ELSE [s EXCEPT !.av = Append(@, IF c = NUL THEN REPL ELSE c)]
    [] st = "AfterAttributeValueQuoted" ->                          \* 13.2.5.39
        IF IsWs(c) THEN To(s, "BeforeAttributeName")
        ELSE IF c = SLASH THEN To(s, "SelfClosingStartTag")
        ELSE IF c = GT THEN EmitTag(s, cfg)
        ELSE Step(To(s, "BeforeAttributeName"), c, cfg)
    [] st = "SelfClosingStartTag" ->                                \* 13.2.5.40
        IF c = GT THEN EmitTag([s EXCEPT !.sc = TRUE], cfg)
        ELSE Step(To(s, "BeforeAttributeName"), c, cfg)
    [] st = "BogusComment" ->                                       \* 13.2.5.41
        IF c = GT THEN To(EmitComment(s), "Data")
        ELSE [s EXCEPT !.cm = Append(@, IF c = NUL THEN REPL ELSE c)]
    [] st = "CommentStart" ->                                       \* 13.2.5.43
        IF c = DASH THEN To(s, "CommentStartDash")
        ELSE IF c = GT THEN To(EmitComment(s), "Data")
        ELSE Step(To(s, "Comment"), c, cfg)
    [] st = "CommentStartDash" ->                                   \* 13.2.5.44
        IF c = DASH THEN To(s, "CommentEnd")
        ELSE IF c = GT THEN To(EmitComment(s), "Data")
        ELSE Step(To([s EXCEPT !.cm = Append(@, DASH)], "Comment"), c, cfg)
    [] st = "Comment" ->                                            \* 13.2.5.45
        IF c = LT THEN To([s EXCEPT !.cm = Append(@, c)], "CommentLessThanSign")
        ELSE IF c = DASH THEN To(s, "CommentEndDash")
        ELSE [s EXCEPT !.cm = Append(@, IF c = NUL THEN REPL ELSE c)]
    [] st = "CommentLessThanSign" ->                                \* 13.2.5.46
        IF c = BANG THEN To([s EXCEPT !.cm = Append(@, c)], "CommentLessThanSignBang")
        ELSE IF c = LT THEN [s EXCEPT !.cm = Append(@, c)]
        ELSE Step(To(s, "Comment"), c, cfg)
    [] st = "CommentLessThanSignBang" ->                            \* 13.2.5.47
        IF c = DASH THEN To(s, "CommentLessThanSignBangDash") ELSE Step(To(s, "Comment"), c, cfg)
    [] st = "CommentLessThanSignBangDash" ->                        \* 13.2.5.48
        IF c = DASH THEN To(s, "CommentLessThanSignBangDashDash") ELSE Step(To(s, "CommentEndDash"), c, cfg)
    [] st = "CommentLessThanSignBangDashDash" ->                    \* 13.2.5.49
        Step(To(s, "CommentEnd"), c, cfg)
    [] st = "CommentEndDash" ->                                     \* 13.2.5.50
        IF c = DASH THEN To(s, "CommentEnd")
        ELSE Step(To([s EXCEPT !.cm = Append(@, DASH)], "Comment"), c, cfg)
    [] st = "CommentEnd" ->                                         \* 13.2.5.51
        IF c = GT THEN To(EmitComment(s), "Data")
        ELSE IF c = BANG THEN To(s, "CommentEndBang")
        ELSE IF c = DASH THEN [s EXCEPT !.cm = Append(@, DASH)]
        ELSE Step(To([s EXCEPT !.cm = @ \o <<DASH, DASH>>], "Comment"), c, cfg)
    [] st = "CommentEndBang" ->                                     \* 13.2.5.52
        IF c = DASH THEN To([s EXCEPT !.cm = @ \o <<DASH, DASH, BANG>>], "CommentEndDash")
        ELSE IF c = GT THEN To(EmitComment(s), "Data")
        ELSE Step(To([s EXCEPT !.cm = @ \o <<DASH, DASH, BANG>>], "Comment"), c, cfg)
    [] st = "Doctype" ->                                            \* 13.2.5.53
        IF IsWs(c) THEN To(s, "BeforeDoctypeName") ELSE Step(To(s, "BeforeDoctypeName"), c, cfg)
    [] st = "BeforeDoctypeName" ->                                  \* 13.2.5.54
        IF IsWs(c) THEN s
        ELSE IF c = GT THEN To(EmitDoctype([NewDoctype(s) EXCEPT !.fq = TRUE]), "Data")
        ELSE To([NewDoctype(s) EXCEPT !.dn = <<<<IF c = NUL THEN REPL ELSE Lower(c)>>>>], "DoctypeName")
    [] st = "DoctypeName" ->                                        \* 13.2.5.55
        IF IsWs(c) THEN To(s, "AfterDoctypeName")
        ELSE IF c = GT THEN To(EmitDoctype(s), "Data")
        ELSE [s EXCEPT !.dn = OptPush(@, IF c = NUL THEN REPL ELSE Lower(c))]
    [] st = "AfterDoctypeName" ->                                   \* 13.2.5.56 (keywords handled by Run)
        IF IsWs(c) THEN s
        ELSE IF c = GT THEN To(EmitDoctype(s), "Data")
        ELSE Step(To([s EXCEPT !.fq = TRUE], "BogusDoctype"), c, cfg)
    [] st \in {"AfterDoctypeKeyword.Public", "AfterDoctypeKeyword.System"} ->          \* 13.2.5.57, .63
        IF IsWs(c) THEN To(s, BeforeIdSt(IdKindOf(st)))
        ELSE IF c = DQ THEN To(ClearId(s, IdKindOf(st)), DqIdSt(IdKindOf(st)))
        ELSE IF c = SQ THEN To(ClearId(s, IdKindOf(st)), SqIdSt(IdKindOf(st)))
        ELSE IF c = GT THEN To(EmitDoctype([s EXCEPT !.fq = TRUE]), "Data")
        ELSE Step(To([s EXCEPT !.fq = TRUE], "BogusDoctype"), c, cfg)
    [] st \in {"BeforeDoctypeIdentifier.Public", "BeforeDoctypeIdentifier.System"} ->  \* 13.2.5.58, .64
        IF IsWs(c) THEN s
        ELSE IF c = DQ THEN To(ClearId(s, IdKindOf(st)), DqIdSt(IdKindOf(st)))
        ELSE IF c = SQ THEN To(ClearId(s, IdKindOf(st)), SqIdSt(IdKindOf(st)))
        ELSE IF c = GT THEN To(EmitDoctype([s EXCEPT !.fq = TRUE]), "Data")
        ELSE Step(To([s EXCEPT !.fq = TRUE], "BogusDoctype"), c, cfg)
    [] st \in {"DoctypeIdentifierDoubleQuoted.Public", "DoctypeIdentifierDoubleQuoted.System"} ->  \* .59, .65
        IF c = DQ THEN To(s, AfterIdSt(IdKindOf(st)))
        ELSE IF c = GT THEN To(EmitDoctype([s EXCEPT !.fq = TRUE]), "Data")
        ELSE PushId(s, IdKindOf(st), IF c = NUL THEN REPL ELSE c)
    [] st \in {"DoctypeIdentifierSingleQuoted.Public", "DoctypeIdentifierSingleQuoted.System"} ->  \* .60, .66
        IF c = SQ THEN To(s, AfterIdSt(IdKindOf(st)))
        ELSE IF c = GT THEN To(EmitDoctype([s EXCEPT !.fq = TRUE]), "Data")
        ELSE PushId(s, IdKindOf(st), IF c = NUL THEN REPL ELSE c)
    [] st = "AfterDoctypeIdentifier.Public" ->                      \* 13.2.5.61
        IF IsWs(c) THEN To(s, "BetweenDoctypePublicAndSystemIdentifiers")
        ELSE IF c = GT THEN To(EmitDoctype(s), "Data")
        ELSE IF c = DQ THEN To(ClearId(s, "System"), "DoctypeIdentifierDoubleQuoted.System")
        ELSE IF c = SQ THEN To(ClearId(s, "System"), "DoctypeIdentifierSingleQuoted.System")
        ELSE Step(To([s EXCEPT !.fq = TRUE], "BogusDoctype"), c, cfg)
    [] st = "BetweenDoctypePublicAndSystemIdentifiers" ->           \* 13.2.5.62
        IF IsWs(c) THEN s
        ELSE IF c = GT THEN To(EmitDoctype(s), "Data")
        ELSE IF c = DQ THEN To(ClearId(s, "System"), "DoctypeIdentifierDoubleQuoted.System")
        ELSE IF c = SQ THEN To(ClearId(s, "System"), "DoctypeIdentifierSingleQuoted.System")
        ELSE Step(To([s EXCEPT !.fq = TRUE], "BogusDoctype"), c, cfg)
    [] st = "AfterDoctypeIdentifier.System" ->                      \* 13.2.5.67
        IF IsWs(c) THEN s
        ELSE IF c = GT THEN To(EmitDoctype(s), "Data")
        ELSE Step(To(s, "BogusDoctype"), c, cfg)                   \* does not set force-quirks
    [] st = "BogusDoctype" ->                                       \* 13.2.5.68
        IF c = GT THEN To(EmitDoctype(s), "Data") ELSE s
    [] st = "CdataSection" ->                                       \* 13.2.5.69
        IF c = RBR THEN To(s, "CdataSectionBracket") ELSE EmitAsIs(s, c)
    [] st = "CdataSectionBracket" ->                                \* 13.2.5.70
        IF c = RBR THEN To(s, "CdataSectionEnd") ELSE Step(To(Emit(s, <<RBR>>), "CdataSection"), c, cfg)
    [] st = "CdataSectionEnd" ->                                    \* 13.2.5.71
        IF c = RBR THEN Emit(s, <<RBR>>)
        ELSE IF c = GT THEN To(s, "Data")
        ELSE Step(To(Emit(s, <<RBR, RBR>>), "CdataSection"), c, cfg)

-----------------------------------------------------------------------------
(* End of input in each state: the tokens still delivered, then EOF.        *)

EofTok(s) == [s EXCEPT !.toks = Append(@, [k |-> "eof", at |-> s.pos]), !.st = "Done"]

Eof(s) ==
  LET st == s.st IN
  CASE st \in {"Data", "RawData.Rcdata", "RawData.Rawtext", "RawData.ScriptData", "Plaintext",
               "RawData.Escaped", "RawData.DoubleEscaped", "TagName",
               "ScriptDataEscapeStart.Escaped", "ScriptDataEscapeStartDash",
               "ScriptDataEscapedDash.Escaped", "ScriptDataEscapedDashDash.Escaped",
               "ScriptDataEscapeStart.DoubleEscaped", "ScriptDataEscapedDash.DoubleEscaped",
               "ScriptDataEscapedDashDash.DoubleEscaped", "ScriptDataDoubleEscapeEnd", "RawLt.DoubleEscaped",
               "BeforeAttributeName", "AttributeName", "AfterAttributeName", "BeforeAttributeValue",
               "AttributeValue.DoubleQuoted", "AttributeValue.SingleQuoted", "AttributeValue.Unquoted",
               "AfterAttributeValueQuoted", "SelfClosingStartTag", "CdataSection"} -> EofTok(s)
    [] st = "TagOpen" -> EofTok(Emit(s, <<LT>>))
    [] st = "EndTagOpen" -> EofTok(Emit(s, <<LT, SLASH>>))
    [] st \in {"RawLt.Rcdata", "RawLt.Rawtext", "RawLt.ScriptData", "RawLt.Escaped"} -> EofTok(Emit(s, <<LT>>))
    [] st \in {"RawEndTagOpen.Rcdata", "RawEndTagOpen.Rawtext", "RawEndTagOpen.ScriptData", "RawEndTagOpen.Escaped"} ->
            EofTok(Emit(s, <<LT, SLASH>>))
    [] st \in {"RawEndTagName.Rcdata", "RawEndTagName.Rawtext", "RawEndTagName.ScriptData", "RawEndTagName.Escaped"} ->
            EofTok(Emit(s, <<LT, SLASH>> \o s.tb))
    [] st \in {"BogusComment", "CommentStart", "CommentStartDash", "Comment", "CommentLessThanSign",
               "CommentLessThanSignBang", "CommentLessThanSignBangDash", "CommentLessThanSignBangDashDash",
               "CommentEndDash", "CommentEnd", "CommentEndBang"} -> EofTok(EmitComment(s))
    [] st = "MarkupDeclarationOpen" -> EofTok(EmitComment([s EXCEPT !.cm = <<>>]))
    [] st \in {"Doctype", "BeforeDoctypeName"} -> EofTok(EmitDoctype([NewDoctype(s) EXCEPT !.fq = TRUE]))
    [] st \in {"DoctypeName", "AfterDoctypeName", "AfterDoctypeKeyword.Public", "AfterDoctypeKeyword.System",
               "BeforeDoctypeIdentifier.Public", "BeforeDoctypeIdentifier.System",
               "DoctypeIdentifierDoubleQuoted.Public", "DoctypeIdentifierDoubleQuoted.System",
               "DoctypeIdentifierSingleQuoted.Public", "DoctypeIdentifierSingleQuoted.System",
               "AfterDoctypeIdentifier.Public", "AfterDoctypeIdentifier.System",
               "BetweenDoctypePublicAndSystemIdentifiers"} -> EofTok(EmitDoctype([s EXCEPT !.fq = TRUE]))
    [] st = "BogusDoctype" -> EofTok(EmitDoctype(s))
    [] st = "CdataSectionBracket" -> EofTok(Emit(s, <<RBR>>))
    [] st = "CdataSectionEnd" -> EofTok(Emit(s, <<RBR, RBR>>))

AllStates ==
    {"Data", "RawData.Rcdata", "RawData.Rawtext", "RawData.ScriptData", "Plaintext",
     "RawData.Escaped", "RawData.DoubleEscaped", "TagName", "TagOpen", "EndTagOpen",
     "ScriptDataEscapeStart.Escaped", "ScriptDataEscapeStartDash",
     "ScriptDataEscapedDash.Escaped", "ScriptDataEscapedDashDash.Escaped",
     "ScriptDataEscapeStart.DoubleEscaped", "ScriptDataEscapedDash.DoubleEscaped",
     "ScriptDataEscapedDashDash.DoubleEscaped", "ScriptDataDoubleEscapeEnd",
     "RawLt.Rcdata", "RawLt.Rawtext", "RawLt.ScriptData", "RawLt.Escaped", "RawLt.DoubleEscaped",
     "RawEndTagOpen.Rcdata", "RawEndTagOpen.Rawtext", "RawEndTagOpen.ScriptData", "RawEndTagOpen.Escaped",
     "RawEndTagName.Rcdata", "RawEndTagName.Rawtext", "RawEndTagName.ScriptData", "RawEndTagName.Escaped",
     "BeforeAttributeName", "AttributeName", "AfterAttributeName", "BeforeAttributeValue",
     "AttributeValue.DoubleQuoted", "AttributeValue.SingleQuoted", "AttributeValue.Unquoted",
     "AfterAttributeValueQuoted", "SelfClosingStartTag", "BogusComment", "MarkupDeclarationOpen",
     "CommentStart", "CommentStartDash", "Comment", "CommentLessThanSign", "CommentLessThanSignBang",
     "CommentLessThanSignBangDash", "CommentLessThanSignBangDashDash", "CommentEndDash", "CommentEnd",
     "CommentEndBang", "Doctype", "BeforeDoctypeName", "DoctypeName", "AfterDoctypeName",
     "AfterDoctypeKeyword.Public", "AfterDoctypeKeyword.System",
     "BeforeDoctypeIdentifier.Public", "BeforeDoctypeIdentifier.System",
     "DoctypeIdentifierDoubleQuoted.Public", "DoctypeIdentifierDoubleQuoted.System",
     "DoctypeIdentifierSingleQuoted.Public", "DoctypeIdentifierSingleQuoted.System",
     "AfterDoctypeIdentifier.Public", "AfterDoctypeIdentifier.System",
     "BetweenDoctypePublicAndSystemIdentifiers", "BogusDoctype",
     "CdataSection", "CdataSectionBracket", "CdataSectionEnd"}

\* States the standard gives a meaning to as a *start* state with nothing accumulated yet:
\* the states that presuppose an attribute under construction are excluded.
StartStates == AllStates \ {"AttributeName", "AfterAttributeName", "BeforeAttributeValue",
                            "AttributeValue.DoubleQuoted", "AttributeValue.SingleQuoted",
                            "AttributeValue.Unquoted", "AfterAttributeValueQuoted"}

-----------------------------------------------------------------------------
(* Whole-input run with the look-ahead the standard uses (character        *)
(* references, markup declaration open, DOCTYPE keywords).                  *)

MatchCI(inp, p, pat) ==
    /\ p + Len(pat) - 1 <= Len(inp)
    /\ \A j \in 1..Len(pat) : Lower(inp[p + j - 1]) = pat[j]
MatchExact(inp, p, pat) ==
    /\ p + Len(pat) - 1 <= Len(inp)
    /\ \A j \in 1..Len(pat) : inp[p + j - 1] = pat[j]

RECURSIVE Run(_, _, _, _)
\* i = index of the next input character
Run(inp, s0, i, cfg) ==
    LET s == [s0 EXCEPT !.pos = i] IN     \* characters consumed once inp[i] has been consumed
    IF i > Len(inp) THEN Eof([s0 EXCEPT !.pos = Len(inp)])
    ELSE LET c == inp[i] IN
    IF s.st = "MarkupDeclarationOpen" THEN                     \* 13.2.5.42
        IF MatchExact(inp, i, <<DASH, DASH>>) THEN Run(inp, To([s EXCEPT !.cm = <<>>], "CommentStart"), i + 2, cfg)
        ELSE IF MatchCI(inp, i, S_doctype) THEN Run(inp, To(s, "Doctype"), i + 7, cfg)
        ELSE IF MatchExact(inp, i, S_cdata) THEN
            IF cfg.cdata THEN Run(inp, To(s, "CdataSection"), i + 7, cfg)
            ELSE Run(inp, To([s EXCEPT !.cm = S_cdata], "BogusComment"), i + 7, cfg)
        ELSE Run(inp, To([s EXCEPT !.cm = <<>>], "BogusComment"), i, cfg)
    ELSE IF s.st = "AfterDoctypeName" /\ ~IsWs(c) /\ c # GT /\ MatchCI(inp, i, S_public)
        THEN Run(inp, To(s, "AfterDoctypeKeyword.Public"), i + 6, cfg)
    ELSE IF s.st = "AfterDoctypeName" /\ ~IsWs(c) /\ c # GT /\ MatchCI(inp, i, S_system)
        THEN Run(inp, To(s, "AfterDoctypeKeyword.System"), i + 6, cfg)
    ELSE LET s1 == Step(s, c, cfg) IN
         IF s1.splice THEN
             \* script pause right after this tag: text written by the script (document.write) is
             \* inserted at the insertion point, i.e. immediately after the end tag just consumed
             LET k == s1.ninj + 1
                 inj == IF k <= Len(cfg.inject) THEN cfg.inject[k] ELSE <<>> IN
             Run(Take(inp, i) \o inj \o Drop(inp, i), [s1 EXCEPT !.splice = FALSE, !.ninj = k], i + 1, cfg)
         ELSE IF s1.cr THEN                                              \* 13.2.5.72-80: '&' met in a state with references
             LET inAttr == s1.st \in AttrValueStates
                 r == CharRefAt(inp, i + 1, inAttr)
                 s2 == [s1 EXCEPT !.cr = FALSE] IN
             Run(inp, IF inAttr THEN [s2 EXCEPT !.av = @ \o r.chars] ELSE Emit(s2, r.chars), i + 1 + r.n, cfg)
         ELSE Run(inp, s1, i + 1, cfg)

\* tokens for a preprocessed input
Tokenize(cfg, inp) == Run(inp, InitTok(cfg), 1, cfg).toks

\* drop the position annotation
StripAt(t) ==
    CASE t.k \in {"start", "end"} -> [k |-> t.k, name |-> t.name, attrs |-> t.attrs, sc |-> t.sc, dup |-> t.dup]
      [] t.k = "comment" -> [k |-> "comment", s |-> t.s]
      [] t.k = "doctype" -> [k |-> "doctype", name |-> t.name, pub |-> t.pub, sys |-> t.sys, fq |-> t.fq]
      [] t.k = "eof" -> [k |-> "eof"]
      [] OTHER -> t
StripAll(toks) == [i \in DOMAIN toks |-> StripAt(toks[i])]
=============================================================================
