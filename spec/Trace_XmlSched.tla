---------------------------- MODULE Trace_XmlSched ----------------------------
(***************************************************************************)
(* C15 judge: relations between runs of the same xml5ever build on one     *)
(* document (the statement's own relations; no opinion on XML5             *)
(* tokenization itself):                                                   *)
(*  R1  every chunking and option set yields the tree (and token stream    *)
(*      minus errors) of the one-piece exact_errors run ("ref");           *)
(*  R2  the document with CR/CRLF -> LF and NUL -> U+FFFD applied to the   *)
(*      source yields the same tree ("norm": line breaks and NUL are       *)
(*      normalised on every read path, none lost or doubled);              *)
(*  R3  a U+FEFF prepended to the stream is dropped with discard_bom and   *)
(*      changes nothing else ("bomrun").                                   *)
(***************************************************************************)
EXTENDS Preprocess, TLC, Json, IOUtils
Rec == ndJsonDeserialize(IOEnv.TRACE)
VARIABLES l, ref
Init == l = 1 /\ ref = [case |-> 0]

XmlNormalize(raw) == LET n == Normalize(raw) IN [i \in DOMAIN n |-> IF n[i] = NUL THEN REPL ELSE n[i]]

Judge(e) ==
    CASE e.ev = "ref" -> e.panic = <<>>
      [] e.ev = "var" -> /\ e.panic = <<>> /\ e.case = ref.case
                         /\ Flatten(e.chunks) = ref.input
                         /\ e.tree = ref.tree /\ e.toks = ref.toks
      [] e.ev = "norm" -> /\ e.panic = <<>> /\ e.case = ref.case
                          /\ e.input = XmlNormalize(ref.input)          \* the harness normalised the source as specified
                          /\ e.tree = ref.tree
      [] e.ev = "bomrun" -> /\ e.panic = <<>> /\ e.case = ref.case
                            /\ e.input = <<BOM>> \o ref.input
                            /\ (ref.bom /\ (ref.input = <<>> \/ ref.input[1] # BOM)) => e.tree = ref.tree
      [] OTHER -> TRUE

Next == /\ l <= Len(Rec) /\ l' = l + 1
        /\ ref' = (IF Rec[l].ev = "ref" THEN Rec[l] ELSE ref)
        /\ (Judge(Rec[l]) \/ PrintT(<<"REJECT", l, Rec[l].case>>))
Spec == Init /\ [][Next]_<<l, ref>>
AllConsumed == \/ TLCGet("stats").diameter = Len(Rec) + 1
               \/ PrintT(<<"NOT-CONSUMED", TLCGet("stats").diameter, Len(Rec)>>) /\ FALSE
=============================================================================
