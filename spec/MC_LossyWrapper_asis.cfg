SPECIFICATION Spec
CONSTANTS
  N = 3
  Caps = {1, 2, 8}
  ContinueWhenLast = FALSE
INVARIANT NothingLostOrDuplicated
CHECK_DEADLOCK FALSE
