-------------------------- MODULE Trace_BufferQueue --------------------------
(***************************************************************************)
(* Trace validation: a recorded history of calls on the real BufferQueue   *)
(* must be a behaviour of the L0 specification.  Each event carries the    *)
(* call, its arguments, the returned value and the full remaining content  *)
(* (the state is small).  A rejected event marks its case as failed        *)
(* (printed as REJECT) and validation continues with the next case.        *)
(***************************************************************************)
EXTENDS BufferQueue, TLC, Json, IOUtils, SequencesExt

Rec == ndJsonDeserialize(IOEnv.TRACE)

VARIABLES l, q, skipping

vars == <<l, q, skipping>>

Init == l = 1 /\ q = <<>> /\ skipping = FALSE

Expected(e) ==
    CASE e.op = "push_back"  -> L0PushBack(q, e.s)
      [] e.op = "push_front" -> L0PushFront(q, e.s)
      [] e.op = "peek"       -> L0Peek(q)
      [] e.op = "next"       -> L0Next(q)
      [] e.op = "pop_except" -> L0PopExcept(q, RangeOf(e.set))
      [] e.op = "eat"        -> L0Eat(q, e.s, e.ci)

Next ==
    /\ l <= Len(Rec)
    /\ l' = l + 1
    /\ LET e == Rec[l] IN
       IF e.ev = "reset" THEN q' = e.pre /\ skipping' = FALSE
       ELSE IF skipping THEN UNCHANGED <<q, skipping>>
       ELSE LET x == Expected(e) IN
            IF x.r = e.r /\ x.q = e.rest /\ NoEmptyBuffer(e.rest)
            THEN q' = x.q /\ skipping' = FALSE
            ELSE /\ PrintT(<<"REJECT", l, e.case>>)
                 /\ q' = q /\ skipping' = TRUE

Spec == Init /\ [][Next]_vars

AllConsumed ==
    \/ TLCGet("stats").diameter = Len(Rec) + 1
    \/ PrintT(<<"NOT-CONSUMED", TLCGet("stats").diameter, Len(Rec)>>) /\ FALSE
=============================================================================
