SPECIFICATION Spec
CONSTANTS
  InlineMax = 8
  MinCap = 16
  Slots = 3
  MaxLen = 20
  MaxOps = 5
  Fmt = "utf8"
  Pieces <- MC_RealUtf8Pieces
  Offs <- MC_RealOffs
  DoExport = TRUE
INVARIANTS ViewsAgree AlwaysValid ReprOk HeapInv NothingLeaks Export
VIEW ViewSt
CHECK_DEADLOCK FALSE
