"""selftest - demonstrations that the machinery is bound to the code and not vacuous (not a property check).

1. negative controls at model level: each NEG_*.cfg switches one repaired defect back on in an L1 model (or weakens one
   atomic step) and TLC must report an invariant violation;
2. trace corruption: a freshly recorded real-code trace is accepted by its judge, and the same trace with one recorded
   field altered (or one event removed) is rejected;
3. (thorough) every mutants/*.patch and seeded/*/patch.diff applied to /repo in turn must make the owning quick check
   exit 1; /repo is restored after each.

exit 0: every demonstration behaved as expected; 1: one did not (printed); 2: tool error."""
import json, os, subprocess, glob
from . import core
from .core import WORK, ROOT, log

NEG = [("NEG_TendrilConc.cfg", "TendrilConc.tla"), ("NEG_TokInput_bav.cfg", "MC_TokInput.tla"),
       ("NEG_TokInput_bom.cfg", "MC_TokInput.tla"), ("NEG_TokInput_bavcr.cfg", "MC_TokInput.tla"), ("NEG_TokInput_eat.cfg", "MC_TokInput.tla"),
       ("NEG_XmlInput_bom.cfg", "MC_XmlInput.tla"), ("NEG_XmlInput_nul.cfg", "MC_XmlInput.tla"),
       ("NEG_XmlSer_decl_before_attrs.cfg", "MC_XmlSer.tla"), ("NEG_XmlSer_end_pop_first.cfg", "MC_XmlSer.tla"),
       ("NEG_XmlSer_no_undeclare.cfg", "MC_XmlSer.tla")]


def neg_controls():
    bad = 0

    def one(cfg, module):
        res = core.tlc_mc("selftest-" + cfg[:-4], module, cfg, workers=4, timeout=1500, xmx="6g")
        return cfg, res
    for cfg, res in core.parallel([(one, (c, m), {}) for (c, m) in NEG], max_workers=4):
        violated = (not res["ok"]) and res["error"] and "violated" in res["error"]
        log("[neg] %-36s %s" % (cfg, "invariant violated, as it must be" if violated else "NOT violated: " + str(res["error"])))
        if not violated:
            bad += 1
    return bad


def corrupt_demo(label, harness_args, module, cfg, mutate, env=None):
    """record a trace, validate (must be accepted), corrupt it with mutate(list of objects) (must be rejected)."""
    tr = os.path.join(WORK, "traces", "selftest-%s.ndjson" % label)
    rc, err = core.run_harness(harness_args, tr)
    if rc != 0:
        log("[corrupt] %s: harness failed: %s" % (label, err[-200:]))
        return 1
    good = core.tlc_trace("selftest-%s-good" % label, module, cfg, tr, env=env, xmx="4g")
    objs = core.read_ndjson(tr)
    what = mutate(objs)
    tr2 = tr[:-7] + "-corrupt.ndjson"
    with open(tr2, "w") as f:
        for o in objs:
            f.write(json.dumps(o, separators=(",", ":")) + "\n")
    badr = core.tlc_trace("selftest-%s-corrupt" % label, module, cfg, tr2, env=env, xmx="4g")
    accepted = good["ok"] and not good["rejects"]
    rejected = (badr["rejects"] != []) or (not badr["ok"])
    log("[corrupt] %-14s recorded trace %s; after %s: %s" % (
        label, "accepted" if accepted else "NOT accepted (%s)" % (good["error"] or good["rejects"][:2]), what,
        "rejected, as it must be" if rejected else "NOT rejected"))
    return 0 if (accepted and rejected) else 1


def corruptions():
    bad = 0

    def c02(objs):
        # rename the first element child of <html> in one recorded tree
        o = objs[min(5, len(objs) - 1)]
        o["dom"]["ch"][-1]["ch"][0]["local"] = [120]
        return "renaming one element of one recorded tree"
    bad += corrupt_demo("c02", ["parse", "--c02", "--mode", "enum", "--family", "format", "--k", 2, "--pieces", 6], "Trace_Tree.tla",
                        "Trace_Tree.cfg", c02)

    def c02tok(objs):
        o = objs[min(7, len(objs) - 1)]
        o["toks"][0]["r"] = "rcdata"
        return "altering one recorded tokenizer-state reply"
    bad += corrupt_demo("c02-reply", ["parse", "--c02", "--mode", "enum", "--family", "format", "--k", 2, "--pieces", 6],
                        "Trace_Tree.tla", "Trace_Tree.cfg", c02tok)

    def sink(objs):
        # drop one append event of a parse: the abstract DOM no longer matches RcDom's tree
        for i, o in enumerate(objs):
            if o.get("ev") == "append" and o.get("k") == "node":
                del objs[i]
                return "removing one recorded append call"
        return "nothing (no append found)"
    bad += corrupt_demo("c20-sink", ["parse", "--mode", "enum", "--family", "format", "--k", 2, "--pieces", 6], "Trace_Sink.tla",
                        "Trace_Sink.cfg", sink, env={"PROP": "C20"})

    def bq(objs):
        for o in objs:
            if o.get("ev") == "op" and o.get("op") in ("next", "peek") and o["r"].get("k") == "char":
                o["r"]["c"] = 88 if o["r"]["c"] != 88 else 89
                return "altering the result of one recorded next/peek"
        return "nothing (no next/peek found)"
    bad += corrupt_demo("c13-bq", ["bq", "--n", 50], "Trace_BufferQueue.tla", "Trace_BufferQueue.cfg", bq)
    return bad


def patches(tier):
    bad = 0
    items = [(os.path.basename(p).split("-")[0], p) for p in sorted(glob.glob(os.path.join(ROOT, "mutants", "*.patch")))]
    items += [(json.load(open(os.path.join(d, "meta.json")))["property"], os.path.join(d, "patch.diff"))
              for d in sorted(glob.glob(os.path.join(ROOT, "seeded", "*"))) if os.path.exists(os.path.join(d, "meta.json"))]
    repo = core.REPO if hasattr(core, "REPO") else "/repo"
    if subprocess.run(["git", "-C", repo, "status", "--porcelain"], stdout=subprocess.PIPE, text=True).stdout.strip():
        log("[patch] /repo has local changes; skipping the patch demonstrations")
        return 1
    for prop, p in items:
        try:
            if subprocess.run(["git", "-C", repo, "apply", p]).returncode != 0:
                log("[patch] %s does not apply" % p)
                bad += 1
                continue
            r = subprocess.run([os.path.join(ROOT, "check"), prop, "--tier", "quick"], stdout=subprocess.PIPE,
                               stderr=subprocess.STDOUT, text=True)
            hit = r.returncode == 1 and ("VIOLATION property=%s" % prop) in r.stdout
            log("[patch] %-52s %s check exit %d: %s" % (os.path.relpath(p, ROOT), prop, r.returncode,
                                                        "reported" if hit else "NOT reported"))
            if not hit:
                bad += 1
        finally:
            subprocess.run(["git", "-C", repo, "checkout", "-q", "--", "."])
    return bad


def run(tier):
    core.ensure_dirs()
    core.build_harness()
    bad = neg_controls()
    bad += corruptions()
    if tier == "thorough":
        bad += patches(tier)
    log("[selftest] %s" % ("all demonstrations behaved as expected" if bad == 0 else "%d demonstration(s) FAILED" % bad))
    return 0 if bad == 0 else 1
