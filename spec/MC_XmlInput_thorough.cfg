SPECIFICATION Spec
CONSTANTS
  MaxLen = 6
  StopSet <- MC_DataSet
  Defects = {}
INVARIANT UniformPreprocessing
CHECK_DEADLOCK FALSE
