"""Shared driver for the properties judged on sink-call traces of real HTML/XML parses (Trace_Sink)."""
import os
from . import core
from .core import Run, WORK

SPEC, CFG = "Trace_Sink.tla", "Trace_Sink.cfg"


def run_sink_property(prop, rule, tier, seed, replay, plans, assumptions, classify=None, mc=None, extra_env=None, crash=False,
                      mc_replay=None):
    """plans: list of (label, harness_args, shards) for quick; entries may be (label, args, shards, 'thorough')."""
    classify = classify or (lambda f, objs: False)
    r = Run(prop, tier, seed)
    core.build_harness()
    env = {"PROP": prop}
    if extra_env:
        env.update(extra_env)
    if replay:
        meta, lines = core.load_replay(replay)
        src = os.path.join(WORK, "traces", "%s-replay-in.ndjson" % prop)
        with open(src, "w") as f:
            f.write("\n".join(lines) + "\n")
        sub = meta.get("sub", "parse")
        if sub == "xml":
            meta.setdefault("replay_flags", ["--mode", "sink"])
        r.gen_validate("replay", [sub, "--replay"] + meta.get("replay_flags", []), SPEC, CFG, 1, classify, core.count_resets,
                       stdin_files=[src], env=env)
        return r.finish(rule, write=False)
    if mc:
        for (name, module, cfg_q, cfg_t) in mc:
            cases = os.path.join(WORK, "traces", "%s-%s-cases.ndjson" % (prop, name))
            res = core.tlc_mc("%s-%s" % (prop, name), module, cfg_q if tier == "quick" else cfg_t, timeout=5000, xmx="16g",
                              replay_out=cases)
            r.add_mc(name, res)
            if res["ok"] and res["replays"] and mc_replay:
                parts, n = core.split_file(cases, core.NCPU)
                r.gen_validate("mc-explored-" + name, mc_replay, SPEC, CFG, len(parts), classify, core.count_resets, env=env,
                               stdin_files=parts, timeout=5000)
                r.extra["mc_cases_replayed"] = n
    for plan in plans:
        label, args, shards = plan[0], plan[1], plan[2]
        only = plan[3] if len(plan) > 3 else None
        if only == "thorough" and tier == "quick":
            continue
        if only == "quick" and tier != "quick":
            continue
        r.gen_validate(label, args, SPEC, CFG, shards, classify, core.count_resets, env=env, timeout=5000,
                       xmx="3g", crash_is_violation=crash)
    r.assumptions = assumptions
    return r.finish(rule)
