"""C14 - every character reference resolves to its WHATWG value."""
import os
from . import core
from .core import Run, WORK

RULE = ("MC_CharRef checks table-level invariants of the specification's named-reference table (shape, legacy names "
        "consistent with their ';' forms, values) and of the numeric mapping, and exports all 2231 names; the harness "
        "expands each name into variants (exact, truncated, case-flipped) x 16 follower strings x 7 contexts (data, "
        "RCDATA, three attribute quotings, EOF inside value, unquoted followed by another attribute) and enumerates "
        "every numeric value 0..0x110000 in decimal and hex forms plus overflow/degenerate forms, all through the real "
        "tokenizer; TLC judges every case against the L0 CharRef/HtmlTokenizer specification.  The same domain (minus texts "
        "that would end the context) is placed in XML text and attribute values and run through xml5ever's tokenizer, "
        "whose delivered text / attribute value is judged against L0 CharRef (Trace_XmlCharRef).")
SPEC, CFG = "Trace_HtmlTok.tla", "Trace_HtmlTok.cfg"
XSPEC, XCFG = "Trace_XmlCharRef.tla", "Trace_XmlCharRef.cfg"


def classify(f, objs):
    return False


def run(tier, seed, replay=None):
    r = Run("C14", tier, seed)
    core.build_harness()
    if replay:
        meta, lines = core.load_replay(replay)
        src = os.path.join(WORK, "traces", "C14-replay-in.ndjson")
        with open(src, "w") as f:
            f.write("\n".join(lines) + "\n")
        if meta.get("spec", "").startswith("Trace_XmlCharRef"):
            r.gen_validate("replay", ["charref", "--xml", "--replay"], XSPEC, XCFG, 1, classify, core.count_lines, stdin_files=[src])
        else:
            r.gen_validate("replay", ["tok", "--replay"], SPEC, CFG, 1, classify, core.count_lines, stdin_files=[src])
        return r.finish(RULE, write=False)
    quick = tier == "quick"
    names = os.path.join(WORK, "traces", "C14-names.ndjson")
    res = core.tlc_mc("C14-mc", "MC_CharRef.tla", "MC_CharRef.cfg", replay_out=names, workers=4, coverage=False)
    r.add_mc("MC_CharRef", res)
    N = core.NCPU
    q = ["--quick"] if quick else []
    if res["ok"]:
        if res["replays"] != 2231:
            r.tool_errors.append("expected 2231 names from the specification table, got %d" % res["replays"])
        r.gen_validate("named", ["charref", "--part", "named"] + q, SPEC, CFG, N if quick else N * 2, classify, core.count_lines,
                       stdin_files=[names] * (N if quick else N * 2), timeout=5000)
    r.gen_validate("numeric", ["charref", "--part", "numeric"] + q, SPEC, CFG, N, classify, core.count_lines, timeout=5000)
    # xml5ever shares the rules: the same domain in XML text and attribute values, judged by L0 CharRef alone
    if res["ok"]:
        r.gen_validate("xml-named", ["charref", "--part", "named", "--xml"] + q, XSPEC, XCFG, N, classify, core.count_lines,
                       stdin_files=[names] * N, timeout=5000)
    r.gen_validate("xml-numeric", ["charref", "--part", "numeric", "--xml"] + q, XSPEC, XCFG, N, classify, core.count_lines, timeout=5000)
    r.assumptions = ["the specification's table is generated from Python's html.entities.html5 (independent of web_atoms)",
                     "numeric references are batched 64 per input; a wrong value anywhere in a batch rejects the batch"]
    return r.finish(RULE, exhaustive=not quick)
