------------------------- MODULE Trace_HtmlTokBase -------------------------
(* shared by the tokenizer trace specifications: trace input and the mapping *)
(* from a logged configuration to an L0 configuration                        *)
EXTENDS HtmlTokenizer, Preprocess, TLC, Json, IOUtils

Rec == ndJsonDeserialize(IOEnv.TRACE)

StdReplies ==
    << [k |-> "start", name |-> <<116, 105, 116, 108, 101>>, r |-> "rcdata"],
       [k |-> "start", name |-> <<116, 101, 120, 116, 97, 114, 101, 97>>, r |-> "rcdata"],
       [k |-> "start", name |-> <<115, 116, 121, 108, 101>>, r |-> "rawtext"],
       [k |-> "start", name |-> <<120, 109, 112>>, r |-> "rawtext"],
       [k |-> "start", name |-> <<115, 99, 114, 105, 112, 116>>, r |-> "script_data"],
       [k |-> "start", name |-> <<112, 108, 97, 105, 110, 116, 101, 120, 116>>, r |-> "plaintext"],
       [k |-> "end", name |-> <<115, 99, 114, 105, 112, 116>>, r |-> "script"] >>

CfgOf(e) == [state |-> e.cfg.state, last |-> e.cfg.last, cdata |-> e.cfg.cdata,
             replies |-> IF e.cfg.rs = "std" THEN StdReplies ELSE <<>>,
             inject |-> [i \in DOMAIN e.inject |-> Normalize(e.inject[i])]]
=============================================================================
