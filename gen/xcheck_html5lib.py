# dev-time cross-check: html5ever's recorded trees vs html5lib 1.1 (pip-vendored, python 3.7) on document parses
import json, sys
from pip._vendor import html5lib
from pip._vendor.html5lib import constants
NS = {constants.namespaces["html"]: "html", constants.namespaces["svg"]: "svg", constants.namespaces["mathml"]: "mathml"}
def conv(node):
    # etree element -> comparable structure (name with ns, attrs sorted, children incl. text)
    tag = node.tag
    if not isinstance(tag, str):
        return ("comment", node.text or "")
    if tag.startswith("{"):
        ns, local = tag[1:].split("}")
    else:
        ns, local = constants.namespaces["html"], tag
    out = []
    if node.text:
        out.append(("text", node.text))
    for ch in node:
        out.append(conv(ch))
        if ch.tail:
            out.append(("text", ch.tail))
    attrs = sorted((k.split("}")[-1], v) for k, v in node.attrib.items())
    return ("el", NS.get(ns, ns), local, tuple(attrs), tuple(out))
def s(c): return "".join(map(chr, c))
def conv5(n):
    k = n["k"]
    if k == "el":
        ch = n["tmpl"][0] if n["tmpl"] else n["ch"]
        return ("el", n["ns"], s(n["local"]), tuple(sorted((s(a["local"]), s(a["v"])) for a in n["attrs"])), tuple(conv5(c) for c in ch))
    if k == "text": return ("text", s(n["s"]))
    if k == "comment": return ("comment", s(n["s"]))
    return (k,)
n = bad = skipped = 0
seen = set()
for line in open(sys.argv[1]):
    e = json.loads(line)
    if e["cfg"]["mode"] != "doc" or not e["cfg"]["scripting"] or e["panic"]:
        continue
    text = "".join(s(c) for c in e["chunks"])
    if text in seen: continue
    seen.add(text)
    if any(w in text.lower() for w in ("template", "select", "option", "search", "<hr", "input", "keygen", "\0", "\r", "isindex", "menuitem", "dialog", "image", "<rb", "<rtc", "cdata")):
        skipped += 1; continue
    try:
        doc = html5lib.parse(text, treebuilder="etree", namespaceHTMLElements=True)
    except Exception as ex:
        skipped += 1; continue
    n += 1
    mine = [c for c in e["dom"]["ch"] if c["k"] == "el"]
    a = conv5(mine[0]); b = conv(doc)
    if a != b:
        bad += 1
        if bad <= int(sys.argv[2]) if len(sys.argv) > 2 else 5:
            print("DIFF", repr(text)); print("  html5ever", a); print("  html5lib ", b)
print("compared", n, "differ", bad, "skipped", skipped)
