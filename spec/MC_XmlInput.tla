----------------------------- MODULE MC_XmlInput -----------------------------
(***************************************************************************)
(* L1 model of xml5ever's input layer for character data and attribute     *)
(* values: get_preprocessed_char (CR -> LF with ignore_lf, NUL -> U+FFFD)   *)
(* on the character-at-a-time path, bulk reads that stop at a per-state    *)
(* set and copy everything else through, chunk boundaries, discard_bom.    *)
(* L0: the stream is preprocessed uniformly (Preprocess!Normalize, NUL ->   *)
(* U+FFFD, leading BOM removed).  Checked for every input over             *)
(* {CR, LF, NUL, BOM, x, &-free} and every chunking: the characters        *)
(* delivered equal L0, whatever path reads them (exact_errors on/off).     *)
(***************************************************************************)
EXTENDS Preprocess, TLC

CONSTANTS MaxLen, StopSet, Defects
VARIABLES fed, q, out, ignoreLf, bomPending, exact, done
vars == <<fed, q, out, ignoreLf, bomPending, exact, done>>
Alpha == {CR, LF, NUL, BOM, 120}

Init == /\ fed = <<>> /\ q = <<>> /\ out = <<>> /\ ignoreLf = FALSE /\ bomPending = TRUE /\ done = FALSE
        /\ exact \in BOOLEAN

\* one character through get_preprocessed_char; returns [out, ign, rest] (rest = remaining chunk)
RECURSIVE Drain(_, _, _)
Drain(buf, o, ign) ==
    IF buf = <<>> THEN [out |-> o, ign |-> ign]
    ELSE IF exact \/ ign \/ buf[1] \in StopSet THEN
        \* character-at-a-time
        LET c == buf[1] IN
        IF ign /\ c = LF THEN Drain(Tail(buf), o, FALSE)
        ELSE IF c = CR THEN Drain(Tail(buf), Append(o, LF), TRUE)
        ELSE Drain(Tail(buf), Append(o, IF c = NUL THEN REPL ELSE c), FALSE)
    ELSE \* bulk read: the maximal run of characters outside the stop set is copied as is
        LET n == PrefixWhileNotIn(buf, StopSet, 1) IN Drain(Drop(buf, n), o \o Take(buf, n), FALSE)

Feed == /\ ~done
        /\ \E chunk \in UNION {[1..n -> Alpha] : n \in 0..3} :
            /\ Len(fed) + Len(chunk) <= MaxLen
            /\ fed' = fed \o chunk
            /\ IF chunk = <<>> THEN UNCHANGED <<out, ignoreLf, bomPending>>
               ELSE LET c1 == IF bomPending /\ chunk[1] = BOM THEN Tail(chunk) ELSE chunk
                        r == Drain(c1, out, ignoreLf) IN
                    /\ out' = r.out /\ ignoreLf' = r.ign
                    /\ bomPending' = ("bom_flag_never_cleared" \in Defects)
        /\ UNCHANGED <<q, exact, done>>
Finish == ~done /\ done' = TRUE /\ UNCHANGED <<fed, q, out, ignoreLf, bomPending, exact>>
Next == Feed \/ Finish
Spec == Init /\ [][Next]_vars

L0Out == LET n == Normalize(StripBom(fed)) IN [i \in DOMAIN n |-> IF n[i] = NUL THEN REPL ELSE n[i]]
UniformPreprocessing == done => out = L0Out
MC_DataSet == {CR, NUL, 38, 60}
MC_OldDataSet == {CR, 38, 60}
=============================================================================
