--------------------------- MODULE MC_LossyWrapper ---------------------------
(***************************************************************************)
(* Every decoder script over N input bytes, every end-of-stream flush,     *)
(* every chunking (empty chunks included) and several output capacities.   *)
(***************************************************************************)
EXTENDS LossyWrapper, TLC

CONSTANTS N, Caps, ContinueWhenLast
VARIABLES script, tail, cuts, cap, result, phase

vars == <<script, tail, cuts, cap, result, phase>>

ItemSeqs(i) == {<<>>, <<10 * i + 1>>, <<M>>, <<M, 10 * i + 1>>, <<10 * i + 1, 10 * i + 2>>, <<10 * i + 1, M>>}
Tails == {<<>>, <<M>>, <<M, 991>>, <<991>>, <<991, M, 992>>}
Scripts == {s \in [1..N -> UNION {ItemSeqs(i) : i \in 1..N}] : \A i \in 1..N : s[i] \in ItemSeqs(i)}

\* chunk ends: a non-decreasing sequence of positions (repeats = empty chunks) ending at N
ChunkEnds == {c \in UNION {[1..k -> 0..N] : k \in 1..(N + 1)} :
                 /\ c[Len(c)] = N
                 /\ \A i \in 1..(Len(c) - 1) : c[i] <= c[i + 1]}

Init == /\ script \in Scripts /\ tail \in Tails /\ cuts \in ChunkEnds /\ cap \in Caps
        /\ result = <<>> /\ phase = "start"

RECURSIVE RunChunks(_, _, _, _)
RunChunks(d, delivered, i, prevEnd) ==
    IF i > Len(cuts) THEN
        \* finish(): decode_to_sink(empty tendril, last = true)
        SinkLoop(script, tail, d, N, TRUE, cap, delivered, ContinueWhenLast).delivered
    ELSE IF cuts[i] = prevEnd THEN RunChunks(d, delivered, i + 1, prevEnd)      \* empty tendril: process() returns
    ELSE LET r == SinkLoop(script, tail, d, cuts[i], FALSE, cap, delivered, ContinueWhenLast) IN
         RunChunks(r.d, r.delivered, i + 1, cuts[i])

Step == /\ phase = "start"
        /\ phase' = "done"
        /\ result' = RunChunks([pos |-> 0, pend |-> <<>>, tailDone |-> FALSE], <<>>, 1, 0)
        /\ UNCHANGED <<script, tail, cuts, cap>>

Spec == Init /\ [][Step]_vars

NothingLostOrDuplicated == phase = "done" => result = Ideal(script, tail)
=============================================================================
