----------------------------- MODULE Debug_Tree -----------------------------
(* development aid: print the L0 tree for every record of TRACE *)
EXTENDS Trace_Tree
ASSUME \A i \in DOMAIN Rec :
    LET e == Rec[i]
        r == Fold([t |-> Start(e.cfg), bad |-> ""], e.toks, 1) IN
    PrintT(<<"L0", i, ToJson([dom |-> CanonD(r.t.nodes, 0), quirks |-> r.t.quirks, qset |-> r.t.qset, low |-> r.t.low, bad |-> r.bad, mode |-> r.t.mode])>>)
=============================================================================
