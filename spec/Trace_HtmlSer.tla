----------------------------- MODULE Trace_HtmlSer -----------------------------
(***************************************************************************)
(* C07 judges on real serializer runs.                                     *)
(*  "rt": a tree of ordinary elements, serialized as the children of a     *)
(*        div and parsed back as a fragment with that context, is the same *)
(*        tree (nothing escapes its context).                              *)
(*  "io": for an element of a real tree, the serialization of its children *)
(*        with the element named as parent is exactly the text between the *)
(*        start and end tag of the element's own serialization; a single   *)
(*        text child is written verbatim iff the parent is an HTML         *)
(*        raw-text element, else escaped per the standard.                 *)
(***************************************************************************)
EXTENDS HtmlSerializer, TLC, Json, IOUtils
Rec == ndJsonDeserialize(IOEnv.TRACE)
VARIABLES l
Init == l = 1

Void == {<<97, 114, 101, 97>>, <<98, 97, 115, 101>>, <<98, 97, 115, 101, 102, 111, 110, 116>>, <<98, 103, 115, 111, 117, 110, 100>>, <<98, 114>>,
         <<99, 111, 108>>, <<101, 109, 98, 101, 100>>, <<102, 114, 97, 109, 101>>, <<104, 114>>, <<105, 109, 103>>, <<105, 110, 112, 117, 116>>,
         <<107, 101, 121, 103, 101, 110>>, <<108, 105, 110, 107>>, <<109, 101, 116, 97>>, <<112, 97, 114, 97, 109>>, <<115, 111, 117, 114, 99, 101>>,
         <<116, 114, 97, 99, 107>>, <<119, 98, 114>>}

Judge(e) ==
    CASE e.ev = "rt" -> e.panic = <<>> /\ e.t1 = e.t2
      [] e.ev = "io" ->
            /\ e.panic = <<>>
            /\ IF e.ns = "html" /\ e.local \in Void /\ e.nchildren = 0
               THEN e.inner = <<>>                                   \* void element: no end tag, no content
               ELSE IF e.ns = "html" /\ e.local \in Void THEN TRUE   \* void element with children: outside the statement
               ELSE /\ EndsWithEndTag(e.outer, e.local)
                    /\ Between(e.outer, e.local) = e.inner
            /\ (e.single_text # <<>> /\ ~(e.ns = "html" /\ e.local \in Void) /\ ~e.is_template =>
                   e.inner = IF RawTextParent(e.ns, e.local, e.scripting) THEN e.single_text[1]
                             ELSE Escape(e.single_text[1], FALSE))
      [] OTHER -> TRUE
Next == /\ l <= Len(Rec) /\ l' = l + 1
        /\ (Judge(Rec[l]) \/ PrintT(<<"REJECT", l, Rec[l].case>>))
Spec == Init /\ [][Next]_l
AllConsumed == \/ TLCGet("stats").diameter = Len(Rec) + 1
               \/ PrintT(<<"NOT-CONSUMED", TLCGet("stats").diameter, Len(Rec)>>) /\ FALSE
=============================================================================
