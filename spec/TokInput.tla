------------------------------ MODULE TokInput ------------------------------
(***************************************************************************)
(* L1: html5ever's tokenizer *input layer*, structured like the code       *)
(* (html5ever/src/tokenizer/mod.rs, char_ref/mod.rs), around the L0 state  *)
(* machine HtmlTokenizer!Step:                                             *)
(*   - BufferQueue of chunks; feed() / end(); suspension when input runs   *)
(*     out; script suspension with text pushed to the front of the queue;  *)
(*   - get_char / get_preprocessed_char: reconsume, ignore_lf, CR -> LF,   *)
(*     current_line;                                                       *)
(*   - pop_except_from bulk reads with their per-state sets, falling back  *)
(*     to get_char when exact_errors / reconsume / ignore_lf;              *)
(*   - the SIMD data-state scan (stops at < & CR NUL, counts LF inside);   *)
(*   - raw peek / discard_char (before-attribute-value, character refs);   *)
(*   - eat(): look-ahead through temp_buf for "--", "doctype", "[CDATA[",  *)
(*     "public", "system";                                                 *)
(*   - the character-reference sub-tokenizer with push-back;               *)
(*   - discard_bom.                                                        *)
(* One operator per code path; MC_TokInput checks that this layer refines  *)
(* L0 for every chunking / option / pause schedule within bounds.          *)
(***************************************************************************)
EXTENDS HtmlTokenizer, Preprocess

\* Historical defects of the input layer, each repaired by a "fix:" commit in /repo.  With a
\* switch in this set the model behaves like the code did before the repair, and MC_TokInput
\* then reports the violation (negative controls run by `./check selftest`); the registered
\* configurations use the empty set, i.e. the code as it is.
CONSTANT Defects

\* ---- queue helpers (the L0 meaning of BufferQueue, see BufferQueue.tla) ---
QEmpty(q) == q = <<>>
QPeek(q) == q[1][1]
QNext(q) == IF Len(q[1]) = 1 THEN Tail(q) ELSE <<Tail(q[1])>> \o Tail(q)
QPushFront(q, s) == IF s = <<>> THEN q ELSE <<s>> \o q
QPushBack(q, s) == IF s = <<>> THEN q ELSE Append(q, s)
QFlat(q) == Flatten(q)

EatStates == {"MarkupDeclarationOpen", "AfterDoctypeName"}

\* per-state sets of pop_except_from (mod.rs: data 729, rcdata 795, rawtext 815, script data 834,
\* escaped 853/878, plaintext 903, attribute values 1271/1291/1312)
BulkSet(st) ==
    CASE st \in {"Data", "RawData.Rcdata"} -> {CR, NUL, AMP, LT, LF}
      [] st \in {"RawData.Rawtext", "RawData.ScriptData"} -> {CR, NUL, LT, LF}
      [] st \in {"RawData.Escaped", "RawData.DoubleEscaped"} -> {CR, NUL, DASH, LT, LF}
      [] st = "Plaintext" -> {CR, NUL, LF}
      [] st = "AttributeValue.DoubleQuoted" -> {CR, DQ, AMP, NUL, LF}
      [] st = "AttributeValue.SingleQuoted" -> {CR, SQ, AMP, NUL, LF}
      [] st = "AttributeValue.Unquoted" -> {CR, TAB, LF, FF, SP, AMP, GT, NUL}
      [] OTHER -> {}
BulkStates == {"Data", "RawData.Rcdata", "RawData.Rawtext", "RawData.ScriptData", "RawData.Escaped",
               "RawData.DoubleEscaped", "Plaintext", "AttributeValue.DoubleQuoted",
               "AttributeValue.SingleQuoted", "AttributeValue.Unquoted"}

\* ---- machine state -------------------------------------------------------
\* tz    : the L0 record (state machine registers and delivered tokens)
\* tl    : line reported with each delivered token (parallel to tz.toks; for a character
\*         group: the line of its last piece)
\* crs   : character-reference sub-tokenizer ([on |-> FALSE] when idle)
CrsIdle == [on |-> FALSE]
L1Init(cfg, opts) ==
    [tz |-> InitTok(cfg), tl |-> <<>>, q |-> <<>>, reconsume |-> FALSE, cur |-> NUL, ignoreLf |-> FALSE,
     discardBom |-> opts.bom, atEof |-> FALSE, line |-> 1, crs |-> CrsIdle, exact |-> opts.exact,
     susp |-> "run"]

\* after an L0 step: give new tokens (and a grown character group) the current line
Relabel(m, tz1) ==
    LET n0 == Len(m.tz.toks)
        n1 == Len(tz1.toks)
        grown == n1 = n0 /\ n1 > 0 /\ tz1.toks[n1] # m.tz.toks[n1]
        tl1 == IF n1 > n0 THEN m.tl \o [i \in 1..(n1 - n0) |-> m.line]
               ELSE IF grown THEN [m.tl EXCEPT ![n1] = m.line] ELSE m.tl
        \* a character group that grew *and* was followed by new tokens also gets the line
        tl2 == IF n1 > n0 /\ n0 > 0 /\ tz1.toks[n0] # m.tz.toks[n0] THEN [tl1 EXCEPT ![n0] = m.line] ELSE tl1 IN
    [m EXCEPT !.tz = tz1, !.tl = tl2]

\* ---- get_preprocessed_char (265-296); res "none" = ran out of input ------
\* returns [m, res, c]
GetPreprocessed(m0, c0) ==
    LET \* pending ignore_lf: drop an LF and fetch the next raw character
        a == IF m0.ignoreLf
             THEN IF c0 = LF
                  THEN IF QEmpty(m0.q) THEN [m |-> [m0 EXCEPT !.ignoreLf = FALSE], ok |-> FALSE, c |-> c0]
                       ELSE [m |-> [m0 EXCEPT !.ignoreLf = FALSE, !.q = QNext(m0.q)], ok |-> TRUE, c |-> QPeek(m0.q)]
                  ELSE [m |-> [m0 EXCEPT !.ignoreLf = FALSE], ok |-> TRUE, c |-> c0]
             ELSE [m |-> m0, ok |-> TRUE, c |-> c0] IN
    IF ~a.ok THEN [m |-> a.m, res |-> "none", c |-> NUL]
    ELSE LET m1 == IF a.c = CR THEN [a.m EXCEPT !.ignoreLf = TRUE] ELSE a.m
             c1 == IF a.c = CR THEN LF ELSE a.c
             m2 == IF c1 = LF THEN [m1 EXCEPT !.line = @ + 1] ELSE m1 IN
         [m |-> [m2 EXCEPT !.cur = c1], res |-> "char", c |-> c1]

\* ---- get_char (300-309) ---------------------------------------------------
GetChar(m) ==
    IF m.reconsume THEN [m |-> [m EXCEPT !.reconsume = FALSE], res |-> "char", c |-> m.cur]
    ELSE IF QEmpty(m.q) THEN [m |-> m, res |-> "none", c |-> NUL]
    ELSE GetPreprocessed([m EXCEPT !.q = QNext(m.q)], QPeek(m.q))

\* ---- peek / discard_char (604-623): raw characters ------------------------
PeekRaw(m) == IF m.reconsume THEN <<TRUE, m.cur>> ELSE IF QEmpty(m.q) THEN <<FALSE, NUL>> ELSE <<TRUE, QPeek(m.q)>>
DiscardRaw(m) == IF m.reconsume THEN [m EXCEPT !.reconsume = FALSE] ELSE [m EXCEPT !.q = QNext(m.q)]

\* ---- pop_except_from (311-330) + BufferQueue::pop_except_from -------------
\* returns [m, res ("none" | "char" | "run"), c, run]
BulkRead(m, set) ==
    IF m.exact \/ m.reconsume \/ m.ignoreLf THEN
        LET g == GetChar(m) IN [m |-> g.m, res |-> g.res, c |-> g.c, run |-> <<>>]
    ELSE IF QEmpty(m.q) THEN [m |-> m, res |-> "none", c |-> NUL, run |-> <<>>]
    ELSE LET buf == m.q[1]
             n == PrefixWhileNotIn(buf, set, 1) IN
         IF n > 0 THEN
             LET rest == Drop(buf, n) IN
             [m |-> [m EXCEPT !.q = IF rest = <<>> THEN Tail(m.q) ELSE <<rest>> \o Tail(m.q)],
              res |-> "run", c |-> NUL, run |-> Take(buf, n)]     \* current_char is not updated
         ELSE LET g == GetPreprocessed([m EXCEPT !.q = QNext(m.q)], buf[1]) IN
              [m |-> g.m, res |-> g.res, c |-> g.c, run |-> <<>>]

\* ---- the SIMD data-state scan (731-766, 2001-2122) ------------------------
CountLF(s) == LET RECURSIVE F(_, _) F(i, acc) == IF i > Len(s) THEN acc ELSE F(i + 1, IF s[i] = LF THEN acc + 1 ELSE acc) IN F(1, 0)
SimdStop == {LT, AMP, CR, NUL}
SimdRead(m) ==
    IF m.exact \/ m.reconsume \/ m.ignoreLf THEN BulkRead(m, BulkSet("Data"))
    ELSE IF QEmpty(m.q) THEN [m |-> m, res |-> "none", c |-> NUL, run |-> <<>>]
    ELSE IF QPeek(m.q) \in {CR, NUL, AMP, LT, LF} THEN BulkRead(m, BulkSet("Data"))
    ELSE LET buf == m.q[1]
             n == PrefixWhileNotIn(buf, SimdStop, 1)      \* >= 1 here; stays within the front buffer
             rest == Drop(buf, n) IN
         [m |-> [m EXCEPT !.q = (IF rest = <<>> THEN Tail(m.q) ELSE <<rest>> \o Tail(m.q)),
                          !.line = @ + CountLF(Take(buf, n))],
          res |-> "run", c |-> NUL, run |-> Take(buf, n)]

\* ---- eat (336-355) + BufferQueue::eat --------------------------------------
\* returns [m, res ("none" | "true" | "false")]
BqEat(q, pat, ci) ==    \* on the flat stream: see BufferQueue!L0Eat
    LET f == QFlat(q)
        k == MinN(Len(f), Len(pat))
        mism == \E i \in 1..k : (IF ci THEN Lower(f[i]) # pat[i] ELSE f[i] # pat[i]) IN
    IF f = <<>> THEN "none" ELSE IF mism THEN "false" ELSE IF Len(f) < Len(pat) THEN "none" ELSE "true"

RECURSIVE QDropChars(_, _)
QDropChars(q, n) == IF n = 0 \/ q = <<>> THEN q
                    ELSE IF Len(q[1]) <= n THEN QDropChars(Tail(q), n - Len(q[1]))
                    ELSE <<Drop(q[1], n)>> \o Tail(q)

Eat(m0, pat, ci) ==
    LET \* a pending ignore_lf is resolved first; if no character is available yet and the
        \* input is not at its end, wait
        pk == PeekRaw(m0)
        wait == m0.ignoreLf /\ ~pk[1] /\ ~m0.atEof /\ "eat_clears_ignore_lf_early" \notin Defects
        m1 == IF ~m0.ignoreLf THEN m0
              ELSE IF pk[1] /\ pk[2] = LF THEN [DiscardRaw(m0) EXCEPT !.ignoreLf = FALSE]
              ELSE [m0 EXCEPT !.ignoreLf = FALSE] IN
    IF wait THEN [m |-> m0, res |-> "none"]
    ELSE LET q1 == QPushFront(m1.q, m1.tz.tb)
             m2 == [m1 EXCEPT !.q = q1, !.tz.tb = <<>>]
             r == BqEat(q1, pat, ci) IN
         IF r = "none" /\ m2.atEof THEN [m |-> m2, res |-> "false"]
         ELSE IF r = "none" THEN [m |-> [m2 EXCEPT !.q = <<>>, !.tz.tb = QFlat(q1)], res |-> "none"]   \* drain into temp_buf
         ELSE IF r = "true" THEN [m |-> [m2 EXCEPT !.q = QDropChars(q1, Len(pat))], res |-> "true"]
         ELSE [m |-> m2, res |-> "false"]

\* ---- character-reference sub-tokenizer (char_ref/mod.rs) -------------------
IsNamePrefix(buf) ==    \* NAMED_ENTITIES.get(buf) is Some: buf is a prefix of some name
    LET rs == EntRows(buf[1]) IN \E i \in DOMAIN rs : IsPrefixOf(buf, rs[i][1])

CrsNew(inAttr) == [on |-> TRUE, st |-> "Begin", inAttr |-> inAttr, num |-> 0, tooBig |-> FALSE, seen |-> FALSE,
                   hex |-> <<>>, buf |-> <<>>, match |-> <<>>, nlen |-> 0]

\* deliver the result of a character reference (process_char_ref 1759-1785)
CrsDeliver(m, chars) ==
    LET cs == IF chars = <<>> THEN <<AMP>> ELSE chars
        tz1 == IF m.tz.st \in AttrValueStates THEN [m.tz EXCEPT !.av = @ \o cs] ELSE Emit(m.tz, cs) IN
    [Relabel(m, tz1) EXCEPT !.crs = CrsIdle]

CrsFinishNumeric(m) ==
    CrsDeliver(m, <<NumericValue(IF m.crs.tooBig THEN 1114112 ELSE MinN(m.crs.num, 1114112))>>)

\* finish_named (304-380): end = <<>> at EOF, else <<last char read>>
CrsFinishNamed(m, end) ==
    LET c == m.crs IN
    IF c.match = <<>> THEN
        IF end # <<>> /\ IsAsciiAlnum(end[1]) THEN [m |-> [m EXCEPT !.crs.st = "BogusName"], res |-> "progress"]
        ELSE [m |-> CrsDeliver([m EXCEPT !.q = QPushFront(@, c.buf)], <<>>), res |-> "done"]
    ELSE LET lastm == c.buf[c.nlen]
             nextc == IF c.nlen = Len(c.buf) THEN <<>> ELSE <<c.buf[c.nlen + 1]>>
             unconsumeAll == /\ lastm # SEMI /\ c.inAttr /\ nextc # <<>>
                             /\ (nextc[1] = EQUALS \/ IsAsciiAlnum(nextc[1])) IN
         IF unconsumeAll THEN [m |-> CrsDeliver([m EXCEPT !.q = QPushFront(@, c.buf)], <<>>), res |-> "done"]
         ELSE [m |-> CrsDeliver([m EXCEPT !.q = QPushFront(@, Drop(c.buf, c.nlen)), !.ignoreLf = FALSE],
                                IF c.match[2] = 0 THEN <<c.match[1]>> ELSE c.match),
               res |-> "done"]

\* one step; res in {"stuck", "progress", "done"}
CrsStep(m) ==
    LET c == m.crs
        pk == PeekRaw(m) IN
    IF ~pk[1] THEN [m |-> m, res |-> "stuck"]
    ELSE LET ch == pk[2] IN
    CASE c.st = "Begin" ->
            IF IsAsciiAlnum(ch) THEN [m |-> [m EXCEPT !.crs.st = "Named"], res |-> "progress"]
            ELSE IF ch = HASH THEN [m |-> [DiscardRaw(m) EXCEPT !.crs.st = "Octothorpe"], res |-> "progress"]
            ELSE [m |-> CrsDeliver(m, <<>>), res |-> "done"]
      [] c.st = "Octothorpe" ->
            IF ch = 120 \/ ch = 88 THEN [m |-> [DiscardRaw(m) EXCEPT !.crs.st = "Numeric16", !.crs.hex = <<ch>>], res |-> "progress"]
            ELSE [m |-> [m EXCEPT !.crs.st = "Numeric10"], res |-> "progress"]
      [] c.st \in {"Numeric10", "Numeric16"} ->
            LET base == IF c.st = "Numeric10" THEN 10 ELSE 16 IN
            IF IsDigitIn(base, ch) THEN
                LET n1 == c.num * base
                    big == c.tooBig \/ n1 > 1114111 IN
                [m |-> [DiscardRaw(m) EXCEPT !.crs.num = (IF big THEN 1114112 ELSE n1 + DigitVal(ch)),
                                              !.crs.tooBig = big, !.crs.seen = TRUE], res |-> "progress"]
            ELSE IF ~c.seen THEN    \* unconsume_numeric
                [m |-> CrsDeliver([m EXCEPT !.q = QPushFront(@, <<HASH>> \o c.hex)], <<>>), res |-> "done"]
            ELSE [m |-> [m EXCEPT !.crs.st = "NumericSemicolon"], res |-> "progress"]
      [] c.st = "NumericSemicolon" ->
            [m |-> CrsFinishNumeric(IF ch = SEMI THEN DiscardRaw(m) ELSE m), res |-> "done"]
      [] c.st = "Named" ->
            LET m1 == DiscardRaw(m)
                buf1 == Append(c.buf, ch) IN
            IF IsNamePrefix(buf1) THEN
                LET v == Lookup(buf1) IN
                [m |-> IF v # <<>> THEN [m1 EXCEPT !.crs.buf = buf1, !.crs.match = v, !.crs.nlen = Len(buf1)]
                       ELSE [m1 EXCEPT !.crs.buf = buf1], res |-> "progress"]
            ELSE CrsFinishNamed([m1 EXCEPT !.crs.buf = buf1], <<ch>>)
      [] c.st = "BogusName" ->
            LET m1 == [DiscardRaw(m) EXCEPT !.crs.buf = Append(c.buf, ch)] IN
            IF IsAsciiAlnum(ch) THEN [m |-> m1, res |-> "progress"]
            ELSE [m |-> CrsDeliver([m1 EXCEPT !.q = QPushFront(@, m1.crs.buf)], <<>>), res |-> "done"]

\* end_of_file (402-437): with the fresh local queue of end()
RECURSIVE CrsEof(_)
CrsEof(m) ==
    LET c == m.crs IN
    CASE c.st = "Begin" -> CrsDeliver(m, <<>>)
      [] c.st \in {"Numeric10", "Numeric16"} /\ ~c.seen ->
            CrsDeliver([m EXCEPT !.q = QPushFront(@, <<HASH>> \o c.hex)], <<>>)
      [] c.st \in {"Numeric10", "Numeric16", "NumericSemicolon"} -> CrsFinishNumeric(m)
      [] c.st = "Named" -> LET r == CrsFinishNamed(m, <<>>) IN IF r.res = "progress" THEN CrsEof(r.m) ELSE r.m
      [] c.st = "BogusName" -> CrsDeliver([m EXCEPT !.q = QPushFront(@, c.buf)], <<>>)
      [] c.st = "Octothorpe" -> CrsDeliver([m EXCEPT !.q = QPushFront(@, <<HASH>>)], <<>>)

\* ---- one step() of the state machine ---------------------------------------
\* apply the L0 transition for one preprocessed character, then start a character
\* reference if the state asked for one
ApplyChar(m, c, cfg) ==
    LET tz1 == Step(m.tz, c, cfg) IN
    IF tz1.cr THEN [Relabel(m, [tz1 EXCEPT !.cr = FALSE]) EXCEPT !.crs = CrsNew(tz1.st \in AttrValueStates)]
    ELSE Relabel(m, tz1)

RECURSIVE ApplyRun(_, _, _, _)
ApplyRun(m, run, i, cfg) == IF i > Len(run) THEN m ELSE ApplyRun(ApplyChar(m, run[i], cfg), run, i + 1, cfg)

\* returns [m, res ("continue" | "suspend" | "script")]
Cont(m) == [m |-> m, res |-> IF m.tz.splice THEN "script" ELSE "continue"]
Susp(m) == [m |-> m, res |-> "suspend"]

StepL1(m, cfg) ==
    LET st == m.tz.st IN
    IF m.crs.on THEN
        LET r == CrsStep(m) IN IF r.res = "stuck" THEN Susp(r.m) ELSE Cont(r.m)
    ELSE IF st \in BulkStates THEN
        LET r == IF st = "Data" THEN SimdRead(m) ELSE BulkRead(m, BulkSet(st)) IN
        IF r.res = "none" THEN Susp(r.m)
        ELSE IF r.res = "char" THEN Cont(ApplyChar(r.m, r.c, cfg))
        ELSE Cont(ApplyRun(r.m, r.run, 1, cfg))
    ELSE IF st = "BeforeAttributeValue" THEN          \* raw peek; line breaks through the preprocessor
        LET pk == PeekRaw(m) IN
        IF ~pk[1] THEN Susp(m)
        ELSE LET ch == pk[2]
                 old == "bav_reconsume_after_crlf" \in Defects       \* the code between 2f9794c and 87f874e
                 \* a pending "skip the LF after a CR" is resolved first, because the reads below are raw (87f874e)
                 m1 == IF old THEN m ELSE [m EXCEPT !.ignoreLf = FALSE] IN
             IF ~old /\ m.ignoreLf /\ ch = LF THEN Cont(DiscardRaw(m1))
             ELSE IF ch = TAB \/ ch = FF \/ ch = SP \/ ((ch = LF \/ ch = CR) /\ "raw_newlines_before_attr_value" \in Defects)
             THEN Cont(DiscardRaw(m1))
             ELSE IF ch = LF \/ ch = CR THEN
                 \* line breaks go through the preprocessor (normalised, counted).  Defect switch: the first repair
                 \* let the preprocessor skip the LF of a CRLF pair and reconsumed the character after it (parse
                 \* errors then depended on chunking) and left ignore_lf pending across the raw reads (a later LF
                 \* was swallowed: visible to TokensRefine)
                 LET g == GetChar(m1) IN
                 IF g.res = "none" THEN Susp(g.m)
                 ELSE IF g.c # LF THEN Cont([g.m EXCEPT !.reconsume = TRUE]) ELSE Cont(g.m)
             ELSE IF ch = DQ THEN Cont([DiscardRaw(m1) EXCEPT !.tz.st = "AttributeValue.DoubleQuoted"])
             ELSE IF ch = SQ THEN Cont([DiscardRaw(m1) EXCEPT !.tz.st = "AttributeValue.SingleQuoted"])
             ELSE IF ch = GT THEN Cont(ApplyChar(DiscardRaw(m1), GT, cfg))
             ELSE Cont([m1 EXCEPT !.tz.st = "AttributeValue.Unquoted"])
    ELSE IF st = "MarkupDeclarationOpen" THEN
        LET e1 == Eat(m, <<DASH, DASH>>, FALSE) IN
        IF e1.res = "none" THEN Susp(e1.m)
        ELSE IF e1.res = "true" THEN Cont([e1.m EXCEPT !.tz.cm = <<>>, !.tz.st = "CommentStart"])
        ELSE LET e2 == Eat(e1.m, S_doctype, TRUE) IN
             IF e2.res = "none" THEN Susp(e2.m)
             ELSE IF e2.res = "true" THEN Cont([e2.m EXCEPT !.tz.st = "Doctype"])
             ELSE IF cfg.cdata THEN
                 LET e3 == Eat(e2.m, S_cdata, FALSE) IN
                 IF e3.res = "none" THEN Susp(e3.m)
                 ELSE IF e3.res = "true" THEN Cont([e3.m EXCEPT !.tz.tb = <<>>, !.tz.st = "CdataSection"])
                 ELSE Cont([e3.m EXCEPT !.tz.cm = <<>>, !.tz.st = "BogusComment"])
             ELSE Cont([e2.m EXCEPT !.tz.cm = <<>>, !.tz.st = "BogusComment"])
    ELSE IF st = "AfterDoctypeName" THEN
        LET e1 == Eat(m, S_public, TRUE) IN
        IF e1.res = "none" THEN Susp(e1.m)
        ELSE IF e1.res = "true" THEN Cont([e1.m EXCEPT !.tz.st = "AfterDoctypeKeyword.Public"])
        ELSE LET e2 == Eat(e1.m, S_system, TRUE) IN
             IF e2.res = "none" THEN Susp(e2.m)
             ELSE IF e2.res = "true" THEN Cont([e2.m EXCEPT !.tz.st = "AfterDoctypeKeyword.System"])
             ELSE LET g == GetChar(e2.m) IN
                  IF g.res = "none" THEN Susp(g.m) ELSE Cont(ApplyChar(g.m, g.c, cfg))
    ELSE LET g == GetChar(m) IN
         IF g.res = "none" THEN Susp(g.m) ELSE Cont(ApplyChar(g.m, g.c, cfg))

\* run(): step until suspension
RECURSIVE RunLoop(_, _)
RunLoop(m, cfg) ==
    LET r == StepL1(m, cfg) IN
    IF r.res = "continue" THEN RunLoop(r.m, cfg) ELSE [r.m EXCEPT !.susp = r.res]

\* feed() (223-239)
Feed(m, cfg) ==
    IF QEmpty(m.q) THEN [m EXCEPT !.susp = "suspend"]
    ELSE LET m1 == IF m.discardBom
                   THEN [m EXCEPT !.q = (IF QPeek(m.q) = BOM THEN QNext(m.q) ELSE m.q), !.discardBom = ("bom_flag_never_cleared" \in Defects)]
                   ELSE m IN
         RunLoop(m1, cfg)

\* the driver: push a chunk, feed until Done; at each script suspension push the script's
\* text to the front of the input and feed again
RECURSIVE Drive(_, _)
Drive(m, cfg) ==
    LET m1 == Feed(m, cfg) IN
    IF m1.susp = "script" THEN
        LET k == m1.tz.ninj + 1
            inj == IF k <= Len(cfg.injectRaw) THEN cfg.injectRaw[k] ELSE <<>> IN
        Drive([m1 EXCEPT !.q = QPushFront(@, inj), !.tz.splice = FALSE, !.tz.ninj = k], cfg)
    ELSE m1
FeedChunk(m, chunk, cfg) == Drive([m EXCEPT !.q = QPushBack(@, chunk)], cfg)

\* end() (1791-1821): character-reference EOF first (with a fresh local queue), then run()
\* at EOF, then the EOF steps (their token-level effect is HtmlTokenizer!Eof)
End(m, cfg) ==
    LET m0 == [m EXCEPT !.q = <<>>]                 \* end() works on its own empty queue
        m1 == IF m0.crs.on THEN CrsEof(m0) ELSE m0
        m2 == RunLoop([m1 EXCEPT !.atEof = TRUE], cfg)
        tzE == Eof([m2.tz EXCEPT !.pos = 0]) IN
    [Relabel(m2, tzE) EXCEPT !.susp = "ended"]

\* ---- observable views --------------------------------------------------------
\* look-ahead held by the tokenizer (will be pushed back): temp_buf while in an eat state,
\* the name buffer of a named reference being matched
LookAhead(m) == (IF m.tz.st \in EatStates /\ ~m.crs.on THEN Len(m.tz.tb) ELSE 0)
              + (IF m.crs.on /\ m.crs.st \in {"Named", "BogusName"} THEN Len(m.crs.buf) ELSE 0)

TokView(m) == [i \in DOMAIN m.tz.toks |-> StripAt(m.tz.toks[i])]
=============================================================================
