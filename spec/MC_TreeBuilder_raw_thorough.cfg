SPECIFICATION Spec
CONSTANTS
  MaxToks = 4
  VocabIdx = {82, 83, 84, 85, 86, 87, 88, 89, 90, 91, 92, 93, 94, 95, 96, 97, 98, 9, 3, 33, 11}
  CtxIdx = {1, 2}
  Scripting = TRUE
  DoExport = TRUE
INVARIANTS Structure Ark TemplateModes AtEof FragEof Export
CHECK_DEADLOCK FALSE
