SPECIFICATION Spec
CONSTANTS
  MaxLen = 5
  StopSet <- MC_DataSet
  Defects = {"bom_flag_never_cleared"}
INVARIANT UniformPreprocessing
CHECK_DEADLOCK FALSE
