------------------------- MODULE HtmlSerializeTree -------------------------
(***************************************************************************)
(* L0: the WHATWG HTML fragment serialization algorithm (13.3) on the      *)
(* canonical (number-free) tree form: elements with their attributes and   *)
(* children (template contents for templates), text, comments, processing  *)
(* instructions and doctypes; void elements have no end tag; text under    *)
(* the raw-text parents is written verbatim, all other text and every      *)
(* attribute value is escaped.                                             *)
(***************************************************************************)
EXTENDS Chars

Esc == INSTANCE HtmlSerializer

Str(s) == s
T_lt == <<60>>
T_gt == <<62>>
T_lts == <<60, 47>>            \* </
T_sp == <<32>>
T_eqq == <<61, 34>>            \* ="
T_q == <<34>>
T_cmo == <<60, 33, 45, 45>>    \* <!--
T_cmc == <<45, 45, 62>>        \* -->
T_pio == <<60, 63>>            \* <?
T_doctype == <<60, 33, 68, 79, 67, 84, 89, 80, 69, 32>>   \* <!DOCTYPE
VoidNames == { <<97, 114, 101, 97>>, <<98, 97, 115, 101>>, <<98, 97, 115, 101, 102, 111, 110, 116>>, <<98, 103, 115, 111, 117, 110, 100>>, <<98, 114>>,
               <<99, 111, 108>>, <<101, 109, 98, 101, 100>>, <<102, 114, 97, 109, 101>>, <<104, 114>>, <<105, 109, 103>>, <<105, 110, 112, 117, 116>>,
               <<107, 101, 121, 103, 101, 110>>, <<108, 105, 110, 107>>, <<109, 101, 116, 97>>, <<112, 97, 114, 97, 109>>, <<115, 111, 117, 114, 99, 101>>,
               <<116, 114, 97, 99, 107>>, <<119, 98, 114>> }

\* an attribute's serialized name
AttrName(a) ==
    CASE a.ns = "" -> a.local
      [] a.ns = "xml" -> <<120, 109, 108, 58>> \o a.local
      [] a.ns = "xmlns" -> IF a.local = <<120, 109, 108, 110, 115>> THEN a.local ELSE <<120, 109, 108, 110, 115, 58>> \o a.local
      [] a.ns = "xlink" -> <<120, 108, 105, 110, 107, 58>> \o a.local
      [] OTHER -> (IF a.prefix = <<>> THEN <<>> ELSE a.prefix[1] \o <<58>>) \o a.local

RECURSIVE AttrsText(_, _)
AttrsText(attrs, i) ==
    IF i > Len(attrs) THEN <<>>
    ELSE T_sp \o AttrName(attrs[i]) \o T_eqq \o Esc!Escape(attrs[i].v, TRUE) \o T_q \o AttrsText(attrs, i + 1)

RECURSIVE SerNode(_, _, _), SerChildren(_, _, _, _)
\* rawParent: the node's parent takes text verbatim
SerNode(n, rawParent, scripting) ==
    CASE n.k = "text" -> IF rawParent THEN n.s ELSE Esc!Escape(n.s, FALSE)
      [] n.k = "comment" -> T_cmo \o n.s \o T_cmc
      [] n.k = "pi" -> T_pio \o n.target \o T_sp \o n.data \o T_gt
      [] n.k = "doctype" -> T_doctype \o n.name \o T_gt
      [] n.k = "el" ->
            LET open == T_lt \o n.local \o AttrsText(n.attrs, 1) \o T_gt IN
            IF n.ns = "html" /\ n.local \in VoidNames THEN open
            ELSE LET kids == IF n.tmpl # <<>> THEN n.tmpl[1] ELSE n.ch IN
                 open \o SerChildren(kids, 1, Esc!RawTextParent(n.ns, n.local, scripting), scripting) \o T_lts \o n.local \o T_gt
      [] OTHER -> <<>>
SerChildren(ch, i, raw, scripting) ==
    IF i > Len(ch) THEN <<>> ELSE SerNode(ch[i], raw, scripting) \o SerChildren(ch, i + 1, raw, scripting)

\* serialization of the children of an element named (ns, local) - "ChildrenOnly(Some(name))"
SerializeChildrenOf(ns, local, ch, scripting) == SerChildren(ch, 1, Esc!RawTextParent(ns, local, scripting), scripting)
=============================================================================
