SPECIFICATION Spec
CONSTANTS
  Defects = {}
  MaxPieces = 2
  MaxFeeds = 3
  PieceSet <- MC_PiecesQuick
  StartSet <- MC_StartsQuick
  Injects <- MC_Injects
  BomOpts = {FALSE}
INVARIANTS TokensRefine SameAsOnePiece LineInv QueueDrained OneEofLast
CHECK_DEADLOCK FALSE
