------------------------------ MODULE Tendril ------------------------------
(***************************************************************************)
(* tendril::Tendril.                                                       *)
(* L0: every tendril *is* a byte string of its format; operations have the *)
(* Vec<u8>/String meaning, and checked operations fail exactly when the    *)
(* request is out of bounds or the result would not be valid in the        *)
(* format (L0Try... return [ok, err, val]).                                *)
(* L1: the representations of tendril.rs -- inline (<= InlineMax bytes in  *)
(* the struct), owned (exclusive heap buffer, capacity in `aux`), shared   *)
(* (refcounted buffer, view offset in `aux`, capacity in the header) --    *)
(* and a heap of buffers [bytes, cap, rc, live]; every operation as the    *)
(* code performs it (make_buf_shared, make_owned(_with_capacity), grow to  *)
(* the next power of two >= MinCap, adjacent-shared merge in push_tendril, *)
(* inline results when they fit).  Real constants: InlineMax = 8,          *)
(* MinCap = 16; model checking uses 2 and 4.                               *)
(***************************************************************************)
EXTENDS Utf8, Integers, FiniteSets

CONSTANTS InlineMax, MinCap

-----------------------------------------------------------------------------
(* formats *)
Valid(f, b) == CASE f = "utf8" -> WellFormed(b)
                 [] f = "ascii" -> \A i \in DOMAIN b : b[i] <= 127
                 [] OTHER -> TRUE              \* bytes, latin1
\* a slice of a valid tendril may be taken iff it is itself valid in the format
\* (ASCII, Latin-1 and Bytes: always; UTF-8: the cuts fall on character boundaries)
ValidSlice(f, b) == IF f = "utf8" THEN WellFormed(b) ELSE TRUE

-----------------------------------------------------------------------------
(* L0 *)
Ok(v) == [ok |-> TRUE, err |-> "", val |-> v]
Err(e) == [ok |-> FALSE, err |-> e, val |-> <<>>]

L0TryPush(f, v, b) == IF Valid(f, b) THEN Ok(v \o b) ELSE Err("invalid")
L0TrySub(f, v, off, len) ==
    IF off > Len(v) \/ len > Len(v) - off THEN Err("oob")
    ELSE IF ~ValidSlice(f, SubSeq(v, off + 1, off + len)) THEN Err("validation")
    ELSE Ok(SubSeq(v, off + 1, off + len))
L0TryPopFront(f, v, n) ==
    IF n = 0 THEN Ok(v)
    ELSE IF n > Len(v) THEN Err("oob")
    ELSE IF ~ValidSlice(f, Drop(v, n)) THEN Err("validation")
    ELSE Ok(Drop(v, n))
L0TryPopBack(f, v, n) ==
    IF n = 0 THEN Ok(v)
    ELSE IF n > Len(v) THEN Err("oob")
    ELSE IF ~ValidSlice(f, Take(v, Len(v) - n)) THEN Err("validation")
    ELSE Ok(Take(v, Len(v) - n))
L0TryFrom(f, b) == IF Valid(f, b) THEN Ok(b) ELSE Err("invalid")

-----------------------------------------------------------------------------
(* L1 representation *)
NoT == [k |-> "none", b |-> <<>>, buf |-> 0, off |-> 0, len |-> 0]
InlineT(b) == [k |-> "inline", b |-> b, buf |-> 0, off |-> 0, len |-> Len(b)]
OwnedT(buf, len) == [k |-> "owned", b |-> <<>>, buf |-> buf, off |-> 0, len |-> len]
SharedT(buf, off, len) == [k |-> "shared", b |-> <<>>, buf |-> buf, off |-> off, len |-> len]

View(heap, t) ==
    CASE t.k = "inline" -> t.b
      [] t.k = "owned" -> Take(heap[t.buf].bytes, t.len)
      [] t.k = "shared" -> SubSeq(heap[t.buf].bytes, t.off + 1, t.off + t.len)
      [] OTHER -> <<>>

RECURSIVE Pow2AtLeast(_, _)
Pow2AtLeast(n, p) == IF p >= n THEN p ELSE Pow2AtLeast(n, 2 * p)

\* state of the L1 machine: [heap, ts] (ts: pool of tendrils); operations return the new state
NewBuf(heap, bytes, cap) == Append(heap, [bytes |-> bytes, cap |-> cap, rc |-> 1, live |-> TRUE])

\* owned_copy(x): Buf32::with_capacity(len) (at least MinCap)
OwnedCopy(heap, x) ==
    LET h1 == NewBuf(heap, x, MaxN(Len(x), MinCap)) IN [heap |-> h1, t |-> OwnedT(Len(h1), Len(x))]

FromBytes(heap, x) == IF Len(x) <= InlineMax THEN [heap |-> heap, t |-> InlineT(x)] ELSE OwnedCopy(heap, x)

\* Drop for Tendril
DropT(heap, t) ==
    IF t.k = "owned" THEN [heap EXCEPT ![t.buf].live = FALSE, ![t.buf].rc = 0]
    ELSE IF t.k = "shared" THEN
        IF heap[t.buf].rc = 1 THEN [heap EXCEPT ![t.buf].live = FALSE, ![t.buf].rc = 0]
        ELSE [heap EXCEPT ![t.buf].rc = @ - 1]
    ELSE heap

\* make_buf_shared: owned -> shared (capacity moves to the header, offset 0)
MakeShared(t) == IF t.k = "owned" THEN SharedT(t.buf, 0, t.len) ELSE t

\* make_owned: inline or shared -> fresh exclusive copy (the old reference is dropped)
MakeOwned(heap, t) ==
    IF t.k = "owned" THEN [heap |-> heap, t |-> t]
    ELSE LET v == View(heap, t)
             c == OwnedCopy(heap, v) IN
         [heap |-> DropT(c.heap, t), t |-> c.t]

\* make_owned_with_capacity(cap): make_owned, then grow to the next power of two if too small
MakeOwnedCap(heap, t, cap) ==
    LET o == MakeOwned(heap, t)
        b == o.t.buf
        \* owned buffers hold exactly the view's bytes as initialised content
        h1 == [o.heap EXCEPT ![b].bytes = Take(@, o.t.len)] IN
    IF cap <= h1[b].cap THEN [heap |-> h1, t |-> o.t]
    ELSE [heap |-> [h1 EXCEPT ![b].cap = Pow2AtLeast(cap, 1)], t |-> o.t]

\* push_bytes_without_validating (no fix-up: Bytes/ASCII/Latin1/UTF8)
PushBytes(heap, t, x) ==
    LET v == View(heap, t)
        newLen == Len(v) + Len(x) IN
    IF newLen <= InlineMax THEN [heap |-> DropT(heap, t), t |-> InlineT(v \o x)]
    ELSE LET o == MakeOwnedCap(heap, t, newLen)
             b == o.t.buf IN
         [heap |-> [o.heap EXCEPT ![b].bytes = Take(@, o.t.len) \o x], t |-> OwnedT(b, newLen)]

\* push_tendril: adjacent views of the same shared buffer are merged without copying
PushTendril(heap, t, o) ==
    IF t.k = "shared" /\ o.k = "shared" /\ t.buf = o.buf /\ o.off = t.off + t.len
    THEN [heap |-> heap, t |-> SharedT(t.buf, t.off, t.len + o.len)]
    ELSE PushBytes(heap, t, View(heap, o))

\* unsafe_subtendril
SubT(heap, t, off, len) ==
    IF len <= InlineMax THEN [heap |-> heap, t |-> t, r |-> InlineT(SubSeq(View(heap, t), off + 1, off + len))]
    ELSE LET s == MakeShared(t) IN
         [heap |-> [heap EXCEPT ![s.buf].rc = @ + 1], t |-> s, r |-> SharedT(s.buf, s.off + off, len)]

\* unsafe_pop_front / unsafe_pop_back
PopFront(heap, t, n) ==
    LET v == View(heap, t)
        newLen == Len(v) - n IN
    IF newLen <= InlineMax THEN [heap |-> DropT(heap, t), t |-> InlineT(Drop(v, n))]
    ELSE LET s == MakeShared(t) IN [heap |-> heap, t |-> SharedT(s.buf, s.off + n, s.len - n)]
PopBack(heap, t, n) ==
    LET v == View(heap, t)
        newLen == Len(v) - n IN
    IF newLen <= InlineMax THEN [heap |-> DropT(heap, t), t |-> InlineT(Take(v, newLen))]
    ELSE LET s == MakeShared(t) IN [heap |-> heap, t |-> SharedT(s.buf, s.off, s.len - n)]

\* Clone
CloneT(heap, t) ==
    IF t.k \in {"inline", "none"} THEN [heap |-> heap, t |-> t, r |-> t]
    ELSE LET s == MakeShared(t) IN [heap |-> [heap EXCEPT ![s.buf].rc = @ + 1], t |-> s, r |-> s]

\* clear
ClearT(heap, t) ==
    IF t.k = "inline" THEN [heap |-> heap, t |-> InlineT(<<>>)]
    ELSE IF t.k = "shared" THEN [heap |-> DropT(heap, t), t |-> InlineT(<<>>)]
    ELSE [heap |-> heap, t |-> OwnedT(t.buf, 0)]

\* DerefMut write of one byte (as_mut_byte_slice: copy-on-write for shared views)
WriteByte(heap, t, i, x) ==
    IF t.k = "inline" THEN [heap |-> heap, t |-> InlineT([t.b EXCEPT ![i] = x])]
    ELSE LET o == MakeOwned(heap, t) IN
         [heap |-> [o.heap EXCEPT ![o.t.buf].bytes = [@ EXCEPT ![i] = x]], t |-> o.t]

-----------------------------------------------------------------------------
(* heap invariants (C12) *)
Viewers(ts, b) == {i \in DOMAIN ts : ts[i].k \in {"owned", "shared"} /\ ts[i].buf = b}
HeapOk(heap, ts) ==
    \A b \in DOMAIN heap :
        /\ (heap[b].live => heap[b].rc = Cardinality(Viewers(ts, b)) /\ heap[b].rc >= 1)      \* refcount = number of views
        /\ (~heap[b].live => Viewers(ts, b) = {})                                             \* freed only after the last user
        /\ (\E i \in Viewers(ts, b) : ts[i].k = "owned") => Cardinality(Viewers(ts, b)) = 1    \* an owned buffer has one owner
        /\ \A i \in Viewers(ts, b) : ts[i].off + ts[i].len <= Len(heap[b].bytes) /\ Len(heap[b].bytes) <= heap[b].cap
=============================================================================
