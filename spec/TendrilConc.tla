---------------------------- MODULE TendrilConc ----------------------------
(***************************************************************************)
(* L1: clones of one atomic tendril (views of one shared heap buffer)      *)
(* distributed over threads.  The refcount operations are separate atomic  *)
(* steps, as in the code: Clone = fetch_add(1) then the view exists;       *)
(* Drop = fetch_sub(1) returning the old value, and *then*, in a later     *)
(* step, destroy() if the old value was 1.  TLC explores every             *)
(* interleaving of clones, drops and reads for a bounded number of views.  *)
(* Safety (C12): the buffer is destroyed at most once, only when no view   *)
(* remains, and no thread reads it after destruction; when every thread    *)
(* has dropped everything the buffer is gone.                              *)
(***************************************************************************)
EXTENDS Naturals, FiniteSets, TLC

CONSTANTS Threads, MaxViews, DestroyWhenOldIs   \* the code destroys when the old count is 1
VARIABLES rc, live, views, pending, destroyed, total
\* views[t]   number of views thread t holds
\* pending[t] thread t has decremented to zero and not yet called destroy()
vars == <<rc, live, views, pending, destroyed, total>>

Init == /\ rc = 1 /\ live = TRUE /\ destroyed = 0 /\ total = 1
        /\ \E t0 \in Threads : views = [t \in Threads |-> IF t = t0 THEN 1 ELSE 0]
        /\ pending = [t \in Threads |-> FALSE]

\* clone(): make_buf_shared + incref; the new view may be handed to any thread (SendTendril / move)
Clone(t) == /\ views[t] > 0 /\ total < MaxViews
            /\ rc' = rc + 1 /\ total' = total + 1
            /\ \E u \in Threads : views' = [views EXCEPT ![u] = @ + 1]
            /\ UNCHANGED <<live, pending, destroyed>>

\* read through a view (as_bytes, subtendril copy, ...): needs the buffer
Read(t) == /\ views[t] > 0 /\ UNCHANGED vars

\* drop(): fetch_sub; the view is gone; remember whether this thread must destroy
DecRef(t) == /\ views[t] > 0
             /\ rc' = rc - 1
             /\ views' = [views EXCEPT ![t] = @ - 1]
             /\ pending' = [pending EXCEPT ![t] = (rc = DestroyWhenOldIs)]
             /\ ~pending[t]
             /\ UNCHANGED <<live, destroyed, total>>

Destroy(t) == /\ pending[t]
              /\ live' = FALSE /\ destroyed' = destroyed + 1
              /\ pending' = [pending EXCEPT ![t] = FALSE]
              /\ UNCHANGED <<rc, views, total>>

Next == \E t \in Threads : Clone(t) \/ DecRef(t) \/ Destroy(t)
Spec == Init /\ [][Next]_vars /\ WF_vars(Next)

NoUseAfterFree == \A t \in Threads : views[t] > 0 => live
DestroyedOnce == destroyed <= 1
RefcountIsViews == rc = (LET RECURSIVE Sum(_) Sum(S) == IF S = {} THEN 0 ELSE LET x == CHOOSE y \in S : TRUE IN views[x] + Sum(S \ {x}) IN Sum(Threads))
NothingLeft == ((\A t \in Threads : views[t] = 0 /\ ~pending[t]) => ~live)
EventuallyFreed == <>[](~live \/ \E t \in Threads : views[t] > 0)
=============================================================================
