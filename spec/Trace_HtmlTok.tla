--------------------------- MODULE Trace_HtmlTok ---------------------------
(***************************************************************************)
(* Judge of recorded runs of the real HTML tokenizer (C01, C14): for the   *)
(* logged configuration and input, the delivered tokens (errors dropped,   *)
(* adjacent character tokens concatenated) must equal the WHATWG           *)
(* tokenization (L0 HtmlTokenizer) of the CR-normalised input.             *)
(***************************************************************************)
EXTENDS Trace_HtmlTokBase

VARIABLES l
Init == l = 1

Expected(e) == StripAll(Tokenize(CfgOf(e), Normalize(Flatten(e.chunks))))

Judge(e) == /\ e.panic = <<>>
            /\ e.toks = Expected(e)

Next == /\ l <= Len(Rec)
        /\ l' = l + 1
        /\ (Judge(Rec[l]) \/ PrintT(<<"REJECT", l, Rec[l].case>>))

Spec == Init /\ [][Next]_l
AllConsumed == \/ TLCGet("stats").diameter = Len(Rec) + 1
               \/ PrintT(<<"NOT-CONSUMED", TLCGet("stats").diameter, Len(Rec)>>) /\ FALSE
=============================================================================
