#!/bin/bash
# dev aid: run the listed checks at a tier: tools_some.sh <tier> <ID>...
cd "$(dirname "$0")"
tier=$1; shift
for c in "$@"; do
  t0=$(date +%s); out=$(./check $c --tier $tier 2>&1); rc=$?; t1=$(date +%s)
  echo "$c exit=$rc $((t1-t0))s $(echo "$out" | grep -E 'VIOLATION|TOOL-ERROR|KNOWN' | head -2 | tr '\n' ' ' | cut -c1-300)"
done
