SPECIFICATION Spec
CONSTANTS
  MaxToks = 3
  VocabIdx = {52, 53, 54, 55, 56, 57, 58, 59, 3, 7, 4, 8, 48, 49, 65, 66, 50, 51, 9}
  CtxIdx = {1, 2}
  Scripting = TRUE
  DoExport = TRUE
INVARIANTS Structure Ark TemplateModes AtEof FragEof Export
CHECK_DEADLOCK FALSE
