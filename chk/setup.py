"""setup: build the harness offline and parse every specification module with SANY."""
import glob, os, subprocess
from . import core


def run():
    core.build_harness()
    bad = 0
    mods = sorted(glob.glob(os.path.join(core.SPEC, "*.tla")))

    def sany(m):
        p = subprocess.run(["java", "-Xss1g", "-cp", core.JAR, "tla2sany.SANY", os.path.basename(m)], cwd=core.SPEC,
                           stdout=subprocess.PIPE, stderr=subprocess.STDOUT, text=True)
        ok = p.returncode == 0 and "Semantic errors" not in p.stdout and "Fatal errors" not in p.stdout and "Parse Error" not in p.stdout
        return (m, ok, p.stdout[-1500:])

    for (m, ok, out) in core.parallel([(sany, (m,), {}) for m in mods]):
        if not ok:
            bad += 1
            core.log("[sany] FAILED " + m + "\n" + out)
    core.log("[setup] %d modules parsed, %d failed" % (len(mods), bad))
    return 2 if bad else 0
