#!/usr/bin/env python3
"""Confirm a sub-agent's seeded change in its scratch worktree, keep it under /verif/seeded/<name>/, and run the owning
check(s) against it.  usage: tools_seed.py <name> <prop> <seed_dir> <worktree> <demo_dest_rel> "<demo_cmd>" "<needs>" [extra props...]"""
import json, os, shutil, subprocess, sys, re, time

name, prop, seed, wt, demo_dest, demo_cmd, needs = sys.argv[1:8]
extra = sys.argv[8:]
def sh(cmd, cwd=None, timeout=3000):
    p = subprocess.run(cmd, shell=True, cwd=cwd, stdout=subprocess.PIPE, stderr=subprocess.STDOUT, text=True, timeout=timeout)
    return p.returncode, p.stdout
def clean():
    sh("git checkout -- . && git clean -fdq -e target", wt)
PHASE = os.environ.get("SEED_PHASE", "AB")
dst = os.path.join("/verif/seeded", name)
if "A" not in PHASE:
    meta = json.load(open(os.path.join(dst, "meta.json")))
else:
    meta = {"property": prop, "needs": needs, "ran": []}
if "A" in PHASE:
  clean()
  os.makedirs(os.path.dirname(os.path.join(wt, demo_dest)), exist_ok=True)
  shutil.copy(os.path.join(seed, "demo.rs"), os.path.join(wt, demo_dest))
  rc0, out0 = sh(demo_cmd, wt)
  meta["ran"].append({"cmd": demo_cmd + "  (unchanged tree)", "exit": rc0})
  rc, _ = sh("git apply %s" % os.path.join(seed, "patch.diff"), wt)
  assert rc == 0, "patch does not apply"
  rc1, out1 = sh(demo_cmd, wt)
  meta["ran"].append({"cmd": demo_cmd + "  (with patch)", "exit": rc1})
  os.remove(os.path.join(wt, demo_dest))
  rc2, out2 = sh("cargo test --workspace --no-fail-fast --offline 2>&1", wt)
  passed = sum(int(m) for m in re.findall(r"test result: \w+\. (\d+) passed", out2))
  failed = sum(int(m) for m in re.findall(r"test result: \w+\. \d+ passed; (\d+) failed", out2))
  meta["ran"].append({"cmd": "cargo test --workspace --no-fail-fast --offline (with patch)", "passed": passed, "failed": failed})
  clean()
  ok = rc0 == 0 and rc1 != 0 and passed == 142 and failed == 0
  meta["confirmed"] = ok
  print("demo clean exit", rc0, "| demo patched exit", rc1, "| suite passed", passed, "failed", failed, "| confirmed", ok)
  if not ok:
      print(out0[-800:] if rc0 else "", out1[-500:] if rc1 == 0 else "")
      sys.exit(1)
  os.makedirs(dst, exist_ok=True)
  shutil.copy(os.path.join(seed, "patch.diff"), dst)
  shutil.copy(os.path.join(seed, "demo.rs"), dst)
  if os.path.exists(os.path.join(seed, "notes.md")):
      shutil.copy(os.path.join(seed, "notes.md"), dst)
  json.dump(meta, open(os.path.join(dst, "meta.json"), "w"), indent=1)
if "B" not in PHASE:
    sys.exit(0)
# run the checks against the change
assert sh("git status --porcelain", "/repo")[1].strip() == "", "/repo not clean"
det = {}
try:
    rc, _ = sh("git apply %s" % os.path.join(dst, "patch.diff"), "/repo")
    assert rc == 0
    for p in [prop] + extra:
        t0 = time.time()
        rc, out = sh("./check %s --tier quick" % p, "/verif")
        det[p] = {"exit": rc, "violation": "VIOLATION property=%s" % p in out, "wall_s": round(time.time() - t0)}
        print("check", p, "exit", rc, "VIOLATION" if det[p]["violation"] else "no violation")
finally:
    sh("git checkout -- .", "/repo")
meta["checks_quick"] = det
json.dump(meta, open(os.path.join(dst, "meta.json"), "w"), indent=1)
