----------------------------- MODULE Trace_XmlNs -----------------------------
(***************************************************************************)
(* C16 judge: every element the real XML tree builder created (aligned     *)
(* with the source tag that caused it, and with its parent at insertion)   *)
(* carries the namespace its prefix is bound to by the nearest enclosing   *)
(* declaration in the resulting tree, own tag included; its attributes are *)
(* the source tag's ordinary attributes with lexically resolved            *)
(* namespaces, in source order, none lost unless an earlier one has the    *)
(* same expanded name.                                                     *)
(***************************************************************************)
EXTENDS XmlNamespaces, TLC, Json, IOUtils
Rec == ndJsonDeserialize(IOEnv.TRACE)
VARIABLES l
Init == l = 1

\* the i-th tag item of the source (text items skipped)
RECURSIVE TagItems(_, _)
TagItems(items, i) == IF i > Len(items) THEN <<>>
                      ELSE IF items[i].k \in {"start", "empty", "end", "short"} THEN <<items[i]>> \o TagItems(items, i + 1)
                      ELSE TagItems(items, i + 1)

\* declaration chain of created element c: its own tag, then its ancestors (by creation records)
RECURSIVE ChainOf(_, _, _, _)
ChainOf(created, tags, c, fuel) ==
    IF fuel = 0 THEN <<>>
    ELSE LET own == <<DeclsOf(tags[c.tag].attrs)>>
             ps == {k \in DOMAIN created : created[k].id = c.parent} IN
         IF ps = {} THEN own ELSE own \o ChainOf(created, tags, created[CHOOSE k \in ps : TRUE], fuel - 1)

Judge(e) ==
    LET tags == TagItems(e.items, 1) IN
    /\ e.panic = <<>>
    /\ e.ntagtokens = Len(tags)                          \* one tag token per source tag (alignment)
    /\ \A k \in DOMAIN e.created :
        LET c == e.created[k]
            t == tags[c.tag]
            chain == ChainOf(e.created, tags, c, Len(e.created) + 1) IN
        /\ c.tag >= 1 /\ c.tag <= Len(tags)
        /\ t.k \in {"start", "empty"}
        /\ c.local = t.local /\ c.prefix = t.prefix
        /\ c.nsu = ElementNs(chain, t.prefix)
        /\ AttrsOk(PlainAttrs(t.attrs, chain), c.attrs)

Next == /\ l <= Len(Rec) /\ l' = l + 1
        /\ (Judge(Rec[l]) \/ PrintT(<<"REJECT", l, Rec[l].case>>))
Spec == Init /\ [][Next]_l
AllConsumed == \/ TLCGet("stats").diameter = Len(Rec) + 1
               \/ PrintT(<<"NOT-CONSUMED", TLCGet("stats").diameter, Len(Rec)>>) /\ FALSE
=============================================================================
