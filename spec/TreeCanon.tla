----------------------------- MODULE TreeCanon -----------------------------
(* shared by the C02 judges: canonical (number-free) form of an L0 tree with the duplicate-attribute flag, and the   *)
(* tree construction state a recorded configuration starts from                                                      *)
EXTENDS HtmlTreeRules

\* canonical form with the duplicate-attribute flag
RECURSIVE WithDup(_)
WithDup(x) == IF x.k = "el" THEN [k |-> "el", ns |-> x.ns, local |-> x.local, attrs |-> x.attrs,
                                  ch |-> [i \in DOMAIN x.ch |-> WithDup(x.ch[i])],
                                  tmpl |-> IF x.tmpl = <<>> THEN <<>> ELSE <<[i \in DOMAIN x.tmpl[1] |-> WithDup(x.tmpl[1][i])]>>,
                                  dup |-> FALSE]
              ELSE x
RECURSIVE CanonChD(_, _)
CanonD(nodes, id) ==
    LET n == N(nodes, id) IN
    CASE n.k = "el" -> [k |-> "el", ns |-> n.ns, local |-> n.local, attrs |-> n.attrs, ch |-> CanonChD(nodes, n.ch),
                        tmpl |-> IF n.tmpl = -1 THEN <<>> ELSE <<CanonChD(nodes, N(nodes, n.tmpl).ch)>>, dup |-> n.s # <<>>]
      [] n.k = "comment" -> [k |-> "comment", s |-> n.s]
      [] n.k = "doc" -> [k |-> "doc", ch |-> CanonChD(nodes, n.ch)]
      [] OTHER -> [k |-> n.k]
CanonChD(nodes, ch) ==
    [i \in DOMAIN ch |->
        CASE ch[i].t = "n" -> CanonD(nodes, ch[i].id)
          [] ch[i].t = "t" -> [k |-> "text", s |-> ch[i].s]
          [] ch[i].t = "v" -> WithDup(ch[i].tree)          \* a clone made by the sink: no token, flag clear
          [] OTHER -> [k |-> "doctype", name |-> ch[i].name, pub |-> ch[i].pub, sys |-> ch[i].sys]]

AttrRecs(a) == [i \in DOMAIN a |-> [ns |-> a[i].ns, prefix |-> a[i].prefix, local |-> a[i].local, v |-> a[i].v]]

Start(cfg) ==
    IF cfg.mode = "frag"
    THEN LET f == FragmentInit(cfg.scripting, cfg.iquirks, [ns |-> cfg.ctx.ns, local |-> cfg.ctx.local,
                                       attrs |-> [i \in DOMAIN cfg.ctx.attrs |-> [ns |-> cfg.ctx.attrs[i].ns, prefix |-> <<>>,
                                                                                local |-> cfg.ctx.attrs[i].local, v |-> cfg.ctx.attrs[i].v]]]) IN
         IF cfg.form_owner
         THEN [f EXCEPT !.nodes = Append(@, MkNode("el", "html", N_form, <<>>, <<>>, <<>>)), !.form = Len(f.nodes)]
         ELSE f
    ELSE TbInit(cfg.scripting, cfg.srcdoc, cfg.iquirks)

DropDoctype(doc) == [doc EXCEPT !.ch = SelectSeq(@, LAMBDA x : x.k # "doctype")]

\* ---- structural invariants of the tree construction state (checked by MC_TreeBuilder / MC_HtmlParser) ----
Distinct(s) == \A i, j \in DOMAIN s : s[i] = s[j] => i = j
StructureOk(t) ==
    /\ LinksConsistent(t.nodes)
    /\ Distinct(t.open)
    /\ \A i \in DOMAIN t.open : Known(t.nodes, t.open[i]) /\ Nd(t, t.open[i]).k = "el"
    /\ (t.open # <<>> => IsHtmlNode(t, t.open[1], N_html))
    /\ \A i \in DOMAIN t.afe : t.afe[i].m \/ (Known(t.nodes, t.afe[i].id) /\ Nd(t, t.afe[i].id).ns = "html"
                                              /\ Nd(t, t.afe[i].id).local \in FormattingTags)
    /\ (t.head # -1 => IsHtmlNode(t, t.head, N_head))
    /\ (t.form # -1 => IsHtmlNode(t, t.form, N_form))
    /\ (~t.stopped /\ t.mode \notin {"Initial", "BeforeHtml"} => t.open # <<>>)
\* Noah's ark: never more than three equal entries after the last marker
ArkOk(t) == LET lm == LastMarker(t.afe) IN
       \A i \in (lm + 1)..Len(t.afe) :
           Cardinality({j \in (lm + 1)..Len(t.afe) : SameTag(t.afe[j].tok, t.afe[i].tok)}) <= 3
\* the template insertion-mode stack has one entry per open template (plus the context template of a fragment)
TemplateModesOk(t) ==
    ~t.stopped => Len(t.tmodes) = Cardinality({i \in DOMAIN t.open : IsHtmlNode(t, t.open[i], N_template)})
                                  + (IF t.frag /\ IsHtmlNode(t, t.ctx, N_template) THEN 1 ELSE 0)
\* at the end of a document parse: the canonical skeleton (C06) and merged text
DocEofOk(t) == (t.stopped /\ ~t.frag) => Skeleton(CanonNode(t.nodes, 0))
FragEofOk(t) == (t.stopped /\ t.frag) =>
              LET d == CanonNode(t.nodes, 0) IN Len(d.ch) = 1 /\ IsHtmlNamed(d.ch[1], N_html) /\ TextOk(d.ch[1])

=============================================================================
